# (basename, line) -> triage of every surviving mutant on that line that no check catches.
# classes: dead = the mutated branch cannot be reached (the guarded call cannot fail for admitted objects);
#          log = only a log / event-recorder statement changes; equiv = behaviourally equivalent;
#          outside = observable, but no listed property speaks about it; live = only the live engine runs this code.
DEAD_CONV = "dead: error branch of a JSON conversion between the two StatefulSet types, which cannot fail (C19 checks that it never does)"
RULES = {
 ("defaults.go", 31): "outside: client-side defaulting adds / omits the rollingUpdate block for the other strategy type; idempotence and the template are untouched, the controller treats a missing block as partition 0",
 ("helper.go", 63): "dead: json.Marshal of a []int32 cannot fail",
 ("helper.go", 142): "equiv: k == max assigns the same value",
 ("helper.go", 153): "equiv: k == min assigns the same value",
 ("upgrade.go", 49): "dead: the selector of a built-in StatefulSet the API server admitted always parses",
 ("upgrade.go", 80): DEAD_CONV,
 ("stateful_pod_control.go", 191): "log: only decides whether an event is recorded",
 ("stateful_set.go", 141): "log: replica-change log line",
 ("stateful_set.go", 164): "live: Run() never starts the workers; every live run ends at the watchdog, the race tier reports INCONCLUSIVE (exit 3), never HELD",
 ("stateful_set.go", 168): "outside: number of worker goroutines (one more / unbounded); correctness per key is unaffected",
 ("stateful_set.go", 300): "dead: a lister List never fails",
 ("stateful_set.go", 328): "dead: a revision without labels is never listed (both list calls select by label)",
 ("stateful_set.go", 362): "outside: an uncached read on every sync, and a deleting set's reconcile fails instead of refreshing status (which C11 allows but does not demand)",
 ("stateful_set.go", 401): "log: user-error message",
 ("stateful_set.go", 448): "live: behaviour after queue shutdown",
 ("stateful_set.go", 457): "outside: a worker exits after one item and is restarted by wait.Until a second later: slower, not wrong",
 ("stateful_set.go", 475): "dead: keys come from the key function and always split",
 ("stateful_set.go", 485): "dead: a lister Get fails with NotFound only",
 ("stateful_set.go", 496): "equiv: within what the CRD admits the three fields are nil together (no spec) or all defaulted",
 ("stateful_set_control.go", 138): "dead: sync has parsed the selector before",
 ("stateful_set_control.go", 211): "equiv: with historyLen == historyLimit the slice of revisions to delete is empty",
 ("stateful_set_control.go", 279): "equiv: revision names are unique",
 ("stateful_set_control.go", 309): "dead: ApplyRevision of a revision the controller recorded cannot fail",
 ("stateful_set_control.go", 313): "dead: ApplyRevision of a revision the controller recorded cannot fail",
 ("stateful_set_control.go", 388): "equiv: the unhealthy count / first unhealthy pod only matter once every desired pod is Running and Ready (the scale-in block is not reached otherwise), where they are 0 / nil for desired pods anyway",
 ("stateful_set_control.go", 390): "outside: an unready condemned pod is never scaled in under OrderedReady until it becomes Ready (blocking is allowed by C05; C02's premise makes it Ready)",
 ("stateful_set_control.go", 391): "log: the counter is only logged",
 ("stateful_set_control.go", 401): "log: the counter is only logged",
 ("stateful_set_control.go", 543): "outside: upstream's extra rule 'an unready condemned pod is only deleted if it is the first unhealthy pod' is not part of C05 (desired pods are all Ready at that point, the target is the highest)",
 ("stateful_set_control.go", 578): "equiv: partition 0 either way",
}
RULES[("stateful_set_control.go", 653)] = "outside: blockOwnerDeletion on the owner reference of an adopted revision; the properties ask for a controlling reference by UID"
RULES[("stateful_set_control.go", 674)] = "dead: json.Marshal of the patch struct cannot fail"
RULES[("stateful_set_control.go", 738)] = "equiv: writing zero bytes to the hash"
RULES[("stateful_set_control.go", 753)] = "equiv: truncating a 223-byte prefix to 223 bytes"
RULES[("stateful_set_utils.go", 49)] = "equiv: set names are distinct"
RULES[("stateful_set_utils.go", 268)] = "outside: which revision a pod (re)created under OnDelete, or with partition 0 during a rollout, is built from; C07 speaks about RollingUpdate with a partition, and with partition 0 the statement asks for the update revision, which the mutant gives"
for l in (285, 297, 319, 328, 345, 350):
    RULES[("stateful_set_utils.go", l)] = "dead: error branch of encoding / decoding / patching the set's own template, which cannot fail for a decodable object"
RULES[("stateful_set_utils.go", 373)] = "equiv: skips the status write only when updatedReplicas alone or currentRevision alone differs from the stored status; in every execution produced another field differed too (a pod changing revision also changes readiness; completing a rollout also changes currentReplicas), and the fixed-point census of C12 found the stored counters exact"
RULES[("stateful_set_utils.go", 374)] = "equiv: skips the status write only when currentRevision alone or updateRevision alone differs; a new update revision comes with a new generation (observedGeneration differs) and a completed rollout changes currentReplicas as well"
DEAD_PC = "dead: RealPodControl.CreatePods / DeletePod / validateControllerRef / getPodsPrefix are not called by this controller (it only uses PatchPod from this file)"
for l in (81, 84, 87, 90, 93, 104, 105, 108, 109, 111, 123, 127, 129, 132, 135, 147, 151, 154, 214):
    RULES[("controller_utils.go", l)] = DEAD_PC
for l in (78, 81, 85, 86, 87, 88, 93):
    RULES[("pod.go", l)] = "dead: UpdatePodCondition is not called by this controller"
RULES[("controller_ref_manager.go", 100)] = "outside: a pod that vanished under its release patch counts as claimed for the rest of that one reconcile"
RULES[("controller_ref_manager.go", 104)] = "equiv: the caller ignores the boolean when an error is returned"
RULES[("controller_ref_manager.go", 133)] = "equiv: the caller ignores the boolean when an error is returned"
RULES[("controller_ref_manager.go", 120)] = "dead: the pod lister is scoped to the set's namespace"
RULES[("controller_ref_manager.go", 122)] = "dead: the pod lister is scoped to the set's namespace"
RULES[("controller_ref_manager.go", 230)] = "equiv: after the first claim error the reconcile fails either way and is retried"
RULES[("controller_ref_manager.go", 250)] = "dead: json.Marshal of the patch struct cannot fail"
RULES[("controller_ref_manager.go", 261)] = "dead: json.Marshal of the patch struct cannot fail"
RULES[("controller_ref_manager.go", 262)] = "dead: json.Marshal of the patch struct cannot fail"
RULES[("controller_ref_manager.go", 265)] = "outside: a release answered NotFound / Invalid now fails the reconcile once more before the cache catches up; the error is reported and retried"
RULES[("controller_ref_manager.go", 296)] = "outside: blockOwnerDeletion on the owner reference of an adopted pod"
RULES[("controller_ref_manager.go", 316)] = "dead: json.Marshal of the patch struct cannot fail"
RULES[("controller_ref_manager.go", 345)] = "dead: json.Marshal of the patch struct cannot fail"
for l in (50, 54):
    RULES[("controller_history.go", l)] = "equiv: only reached for distinct names / distinct revision numbers"
for l in (70, 71):
    RULES[("controller_history.go", l)] = "dead: nil revisions are never compared"
for l in (75, 82):
    RULES[("controller_history.go", l)] = "equiv: the hash labels only short-cut the byte comparison, which decides either way"
for l in (138, 153):
    RULES[("controller_history.go", l)] = "dead: this copy of the hashing / naming helpers is not called (the controller has its own in stateful_set_control.go)"
RULES[("stateful_set_utils.go", 405)] = "equiv: ordinals of distinct pods are distinct"
RULES[("expansion_generated.go", 61)] = "dead: a lister List never fails"
RULES[("expansion_generated.go", 68)] = "dead: the list is already scoped to the pod's namespace"
for l in (76, 89, 102, 114, 122, 138, 150, 239, 240, 248, 253, 262, 267, 276, 281, 294, 299):
    RULES[("hijack.go", l)] = DEAD_CONV
