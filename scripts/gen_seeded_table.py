#!/usr/bin/env python3
"""Regenerates the table of seeded changes in DESIGN.md from /verif/seeded/*/meta.json."""
import json, glob, os, re
rows=[]
for d in sorted(glob.glob('/verif/seeded/*')):
    m=json.load(open(os.path.join(d,'meta.json')))
    rows.append("| `%s` | %s | %s | %s | %s |" % (m['id'], m['breaks_property'], m['needs_to_manifest'].replace('|','/'), ' '.join(m['caught_by']), m.get('notes','').replace('|','/')))
table="| seeded change | breaks | needs, in order to manifest | caught by (quick tier) | clauses / what had to be strengthened |\n|---|---|---|---|---|\n"+"\n".join(rows)
p='/verif/DESIGN.md'
s=open(p).read()
s=re.sub(r'<!-- SEEDED-TABLE-BEGIN -->.*<!-- SEEDED-TABLE-END -->','<!-- SEEDED-TABLE-BEGIN -->\n'+table.replace('\\','\\\\')+'\n<!-- SEEDED-TABLE-END -->',s,flags=re.S)
open(p,'w').write(s)
print(len(rows),"rows")
