#!/bin/bash
# Runs the repository's own test suite exactly like /root/.vp/BASELINE.json does,
# with the verif guard OFF (no build tag). go test -json on stdout.
export GOFLAGS=-mod=mod GOPROXY=off GOSUMDB=off GOTOOLCHAIN=local
for m in . ./client; do
  (cd /repo/$m && go test -mod=mod -json -vet=off -count=1 -timeout 25m ./...)
done
exit 0
