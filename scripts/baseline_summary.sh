#!/bin/bash
# Convenience: compare the guard-off suite with the stable_pass list of BASELINE.json.
/verif/scripts/baseline_off.sh 2>/dev/null | python3 -c '
import sys, json
base=set(json.load(open("/root/.vp/BASELINE.json"))["stable_pass"])
ok=set()
for l in sys.stdin:
    try: e=json.loads(l)
    except Exception: continue
    if e.get("Action")=="pass" and e.get("Test"): ok.add(e["Package"]+"::"+e["Test"])
missing=sorted(base-ok)
print("baseline stable_pass=%d passing_now=%d missing=%d" % (len(base), len(base&ok), len(missing)))
for m in missing: print("  MISSING", m)
sys.exit(1 if missing else 0)
'
