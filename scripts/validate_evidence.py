#!/usr/bin/env python3
import json, glob, sys, jsonschema
sch = json.load(open("/root/.vp/EVIDENCE.schema.json"))
bad = 0
for f in sorted(glob.glob("/verif/evidence/*.json")):
    try:
        e = json.load(open(f)); jsonschema.validate(e, sch)
        c = e["coverage"]
        print("%s ok tier=%s evaluations=%d distinct=%d violations=%s wall=%.1fs" % (f.split('/')[-1], e["tier"], c["evaluations"], c["distinct_nontrivial"], e.get("violations"), e["wall_s"]))
    except Exception as ex:
        bad += 1; print(f, "INVALID", str(ex)[:200])
sys.exit(1 if bad else 0)
