#!/usr/bin/env python3
"""Fills DESIGN.md between <!-- AUTOMUT-BEGIN --> and <!-- AUTOMUT-END --> from /verif/automut/results.json + triage.json."""
import subprocess, re
out = subprocess.run(['python3', '/verif/scripts/automut_report.py', '/verif/automut/results.json'], capture_output=True, text=True).stdout
p = '/verif/DESIGN.md'
s = open(p).read()
s = re.sub(r'<!-- AUTOMUT-BEGIN -->.*<!-- AUTOMUT-END -->', '<!-- AUTOMUT-BEGIN -->\n' + out.replace('\\', '\\\\') + '<!-- AUTOMUT-END -->', s, flags=re.S)
open(p, 'w').write(s)
print(out.split('\n')[0])
