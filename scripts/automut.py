#!/usr/bin/env python3
"""Automated operator mutation of the repository sources, as a breadth complement to the hand-seeded changes.

stage 1 (gen):   every single-token mutation (relational / boolean operator flip, dropped negation, continue<->break,
                 `return err` -> `return nil`, +1 <-> -1, true <-> false) of the listed non-test files is built and run
                 against the module's existing tests in scratch copies; the ones that compile and pass the tests
                 ("test-suite survivors") are kept as diffs.
stage 2 (check): for every survivor the checks mapped to its file run (quick tier) against a scratch copy with the
                 change applied, stopping at the first that reports a VIOLATION; changes no check catches are listed
                 for manual triage (equivalent / outside every property / a gap in a monitor).

usage: automut.py gen  <outdir> [nworkers]
       automut.py check <outdir> [first] [last]
Scratch copies live under <outdir> (outside /repo and /verif, e.g. /tmp/automut) and are removed at the end of each stage.
"""
import os, re, sys, subprocess, shutil, json, hashlib
from multiprocessing import Pool

REPO = os.environ.get('AUTOMUT_REPO', '/repo')
VERIF = os.path.dirname(os.path.dirname(os.path.abspath(__file__)))
PRISTINE = None  # snapshot of /repo taken at the start of a stage; /repo itself may be in use by other mutation runs meanwhile
ENV = dict(os.environ, GOFLAGS='-mod=mod', GOPROXY='off', GOSUMDB='off', GOTOOLCHAIN='local')
FILES = {
    'pkg/controller/statefulset/stateful_set_control.go': 'C03 C04 C05 C07 C14 C12 C08 C13 C06 C10 C11 C02 C09 C15 C01',
    'pkg/controller/statefulset/stateful_set_utils.go': 'C03 C04 C05 C07 C06 C12 C08 C14 C13 C10 C11 C02 C09 C15 C01 C18',
    'pkg/controller/statefulset/stateful_pod_control.go': 'C06 C09 C10 C02 C15 C04',
    'pkg/controller/statefulset/stateful_set_status_updater.go': 'C12 C09 C15 C02 C10',
    'pkg/controller/statefulset/stateful_set.go': 'C16 C10 C11 C13 C08 C02 C09 C15 C18',
    'pkg/third_party/k8s/controller_ref_manager.go': 'C10 C11 C18 C02 C09',
    'pkg/third_party/k8s/controller_history.go': 'C08 C15 C13 C10 C18 C02',
    'pkg/third_party/k8s/controller_utils.go': 'C10 C03 C02 C05',
    'pkg/third_party/k8s/pod.go': 'C05 C12 C02 C07',
    'client/apis/apps/v1/helper/helper.go': 'C01 C19 C03 C04 C15',
    'client/apis/apps/v1/helper/upgrade.go': 'C17 C18',
    'client/apis/apps/v1/helper/hijack.go': 'C19 C20',
    'client/apis/apps/v1/defaults.go': 'C19 C15',
    'client/client/listers/apps/v1/expansion_generated.go': 'C16',
}
ALL = ['C%02d' % i for i in range(1, 21)]

OPS = [
    (r'==', '!='), (r'!=', '=='), (r'<=', '<'), (r'>=', '>'), (r'(?<![<\-])<(?![=\-<])', '<='), (r'(?<![>\-=])>(?![=>])', '>='),
    (r'&&', '||'), (r'\|\|', '&&'),
    (r'!(?=[A-Za-z_(])', ''),
    (r'\bcontinue\b', 'break'), (r'\bbreak\b', 'continue'),
    (r'\breturn err\b', 'return nil'), (r'\breturn nil, err\b', 'return nil, nil'),
    (r'\+ 1\b', '- 1'), (r'- 1\b', '+ 1'), (r'\btrue\b', 'false'), (r'\bfalse\b', 'true'),
    (r'\+\+', '--'),
]


def in_string(line, pos):
    q = 0
    i = 0
    while i < pos:
        c = line[i]
        if c == '\\':
            i += 2
            continue
        if c == '"':
            q ^= 1
        if c == '`':
            q ^= 2
        i += 1
    return q != 0


def candidates():
    out = []
    for f in FILES:
        if os.environ.get('AUTOMUT_ONLY') and os.environ['AUTOMUT_ONLY'] not in f:
            continue
        lines = open(os.path.join(PRISTINE or REPO, f)).read().split('\n')
        in_block = False
        for n, line in enumerate(lines):
            st = line.strip()
            if st.startswith('/*'):
                in_block = True
            if in_block:
                if '*/' in st:
                    in_block = False
                continue
            if st.startswith('//') or st.startswith('import') or st.startswith('package'):
                continue
            code = line.split('//')[0] if '//' in line and not in_string(line, line.index('//')) else line
            if 'klog.' in code or 'glog.' in code:
                continue
            for k, (pat, rep) in enumerate(OPS):
                for m in re.finditer(pat, code):
                    if in_string(code, m.start()):
                        continue
                    if pat.startswith(r'(?<![<') and re.search(r'\bchan\b|<-', code):
                        continue
                    new = line[:m.start()] + rep + line[m.end():]
                    out.append({'file': f, 'line': n + 1, 'op': k, 'col': m.start(), 'old': line, 'new': new})
    for c in out:
        c['id'] = hashlib.sha1(('%s:%d:%d:%d' % (c['file'], c['line'], c['op'], c['col'])).encode()).hexdigest()[:10]
    return out


def sh(cmd, cwd, timeout=600):
    try:
        p = subprocess.run(cmd, cwd=cwd, env=ENV, shell=True, stdout=subprocess.PIPE, stderr=subprocess.STDOUT, timeout=timeout)
        return p.returncode, p.stdout.decode(errors='replace')
    except subprocess.TimeoutExpired:
        return 124, 'timeout'


def copy_repo(dst, src=None):
    if os.path.exists(dst):
        shutil.rmtree(dst)
    subprocess.run(['rsync', '-a', '--exclude', '.git', (src or PRISTINE or REPO) + '/', dst + '/'], check=True)


def apply(copy, c):
    p = os.path.join(copy, c['file'])
    lines = open(p).read().split('\n')
    assert lines[c['line'] - 1] == c['old'], (c, lines[c['line'] - 1])
    lines[c['line'] - 1] = c['new']
    open(p, 'w').write('\n'.join(lines))


def restore(copy, c):
    shutil.copyfile(os.path.join(PRISTINE or REPO, c['file']), os.path.join(copy, c['file']))


def gen_one(args):
    c, outdir, nworkers = args
    wid = os.getpid()
    copy = os.path.join(outdir, 'w%d' % wid)
    if not os.path.exists(copy):
        copy_repo(copy)
    apply(copy, c)
    try:
        client = c['file'].startswith('client/')
        if client:
            rc, out = sh('go build ./... ', os.path.join(copy, 'client'))
            if rc == 0:
                rc, out = sh('go test -vet=off -count=1 ./...', os.path.join(copy, 'client'))
                if rc != 0:
                    return c['id'], 'killed-by-tests'
            else:
                return c['id'], 'no-compile'
        rc, out = sh('go build ./pkg/... ./cmd/...', copy)
        if rc != 0:
            return c['id'], 'no-compile'
        rc, out = sh('go test -vet=off -count=1 ./pkg/... ./cmd/...', copy, timeout=300)
        if rc != 0:
            return c['id'], 'killed-by-tests'
        return c['id'], 'survivor'
    finally:
        restore(copy, c)


def snapshot(outdir):
    global PRISTINE
    assert subprocess.run(['git', '-C', REPO, 'status', '--porcelain'], stdout=subprocess.PIPE).stdout == b'', 'the repository is not clean'
    dst = os.path.join(outdir, 'pristine')
    copy_repo(dst, REPO)
    PRISTINE = dst


def gen(outdir, nworkers):
    os.makedirs(outdir, exist_ok=True)
    snapshot(outdir)
    cands = candidates()
    state_f = os.path.join(outdir, 'gen.json')
    state = json.load(open(state_f)) if os.path.exists(state_f) else {}
    todo = [c for c in cands if c['id'] not in state]
    print('%d candidates, %d to do' % (len(cands), len(todo)), flush=True)
    with Pool(nworkers) as pool:
        for k, (cid, verdict) in enumerate(pool.imap_unordered(gen_one, [(c, outdir, nworkers) for c in todo])):
            state[cid] = verdict
            if k % 20 == 0:
                json.dump(state, open(state_f, 'w'))
                print(k, {v: list(state.values()).count(v) for v in set(state.values())}, flush=True)
    json.dump(state, open(state_f, 'w'))
    byid = {c['id']: c for c in cands}
    surv = [byid[i] for i, v in state.items() if v == 'survivor' and i in byid]
    surv.sort(key=lambda c: (c['file'], c['line'], c['col']))
    json.dump(surv, open(os.path.join(outdir, 'survivors.json'), 'w'), indent=1)
    print('done', {v: list(state.values()).count(v) for v in set(state.values())})
    for d in os.listdir(outdir):
        if re.fullmatch(r'w\d+|pristine', d):
            shutil.rmtree(os.path.join(outdir, d))


def check(outdir, first, last):
    surv = json.load(open(os.path.join(outdir, 'survivors.json')))
    res_f = os.path.join(outdir, 'check.json')
    res = json.load(open(res_f)) if os.path.exists(res_f) else {}
    snapshot(outdir)
    copy = os.path.join(outdir, 'checkrepo')
    copy_repo(copy)
    vdir = os.path.join(outdir, 'verifout')
    env = dict(ENV, VERIF_REPO=copy, VERIF_DIR=vdir, VERIF_RACE=os.environ.get('VERIF_RACE', '0'))
    for k, c in enumerate(surv[first:last]):
        if c['id'] in res:
            continue
        try:
            apply(copy, c)
        except AssertionError:
            print('%s:%d skipped: the line changed since stage 1' % (c['file'], c['line']), flush=True)
            continue
        order = FILES[c['file']].split()
        if os.environ.get('AUTOMUT_ALL'):
            order += [p for p in ALL if p not in order]
        caught, ran = None, []
        for p in order:
            try:
                pr = subprocess.run(['./check.sh', p, 'quick'], cwd=VERIF, env=env, stdout=subprocess.PIPE, stderr=subprocess.STDOUT, timeout=1800)
                out = pr.stdout.decode(errors='replace')
            except subprocess.TimeoutExpired:
                out = 'TIMEOUT'
            ran.append(p)
            if re.search(r'^VIOLATION', out, re.M):
                m = re.search(r'^  (C\d+/\S+)', out, re.M)
                caught = (p, m.group(1) if m else '?')
                break
            if 'INCONCLUSIVE' in out or 'TIMEOUT' in out:
                ran[-1] = p + '?'
        restore(copy, c)
        res[c['id']] = {'file': c['file'], 'line': c['line'], 'old': c['old'].strip(), 'new': c['new'].strip(), 'caught': caught, 'ran': ran}
        json.dump(res, open(res_f, 'w'), indent=1)
        print('%d/%d %s:%d  [%s] -> [%s]  %s' % (first + k + 1, len(surv), c['file'], c['line'], c['old'].strip()[:70], c['new'].strip()[:70],
                                              ('CAUGHT by %s %s (after %d checks)' % (caught[0], caught[1], len(ran))) if caught else 'NOT CAUGHT by any check'), flush=True)
    shutil.rmtree(copy, ignore_errors=True)
    shutil.rmtree(vdir, ignore_errors=True)
    shutil.rmtree(PRISTINE, ignore_errors=True)


if __name__ == '__main__':
    if sys.argv[1] == 'gen':
        gen(sys.argv[2], int(sys.argv[3]) if len(sys.argv) > 3 else 6)
    elif sys.argv[1] == 'count':
        cs = candidates()
        print(len(cs))
        from collections import Counter
        print(Counter(c['file'] for c in cs))
    else:
        check(sys.argv[2], int(sys.argv[3]) if len(sys.argv) > 3 else 0, int(sys.argv[4]) if len(sys.argv) > 4 else 10 ** 9)
