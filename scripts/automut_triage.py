#!/usr/bin/env python3
"""automut_triage.py <results.json>... : writes /verif/automut/triage.json from automut/triage_rules.py for the mutants no check caught."""
import json, sys, os
sys.path.insert(0, '/verif/automut')
from triage_rules import RULES
res = {}
for f in sys.argv[1:]:
    res.update(json.load(open(f)))
out = {}
for v in res.values():
    if v['caught']:
        continue
    r = RULES.get((os.path.basename(v['file']), v['line']))
    if r:
        out['%s:%d:%s' % (v['file'], v['line'], v['new'])] = r
json.dump(out, open('/verif/automut/triage.json', 'w'), indent=1, sort_keys=True)
print(len(out), 'triaged')
