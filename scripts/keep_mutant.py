#!/usr/bin/env python3
"""keep_mutant.py <worktree> <mN> <id> <property> "<needs>" "<caught_by>" "<missed_by/notes>"  : archives a confirmed seeded change."""
import sys, os, shutil, json
wt, m, sid, prop, needs, caught, notes = sys.argv[1:8]
d = f"/verif/seeded/{sid}"
os.makedirs(d, exist_ok=True)
shutil.copy(f"{wt}/out/{m}.diff", f"{d}/patch.diff")
shutil.copy(f"{wt}/out/{m}_demo_test.go", f"{d}/demo_test.go")
meta = {
 "id": sid, "breaks_property": prop, "origin": "independent sub-agent given only the property text and a scratch worktree",
 "needs_to_manifest": needs,
 "confirmed": "scripts/try_mutant.sh: demo passes on the clean worktree, fails with the change; go build and the existing suites of both modules pass with the change",
 "ran": f"scripts/try_mutant.sh {wt} {m} \"<checks>\" quick  (applies patch.diff to /repo, runs ./check.sh <id> quick, restores /repo)",
 "caught_by": caught.split(), "notes": notes,
}
json.dump(meta, open(f"{d}/meta.json","w"), indent=1)
print("kept", d)
