#!/bin/bash
# usage: VERIF_REPO=<repo copy> scripts/regress_mutants.sh [ids...]  — re-runs, for every archived seeded change, the checks
# listed in its meta.json against a copy of the repository with the change applied. Prints one line per (change, check).
cd "$(dirname "$0")/.." || exit 2
repo="${VERIF_REPO:?set VERIF_REPO to a scratch copy of the repository}"
export VERIF_DIR="${VERIF_DIR:-$PWD/regressout}"
ids="$@"; [ -z "$ids" ] && ids=$(ls seeded)
missed=0
for id in $ids; do
  git -C "$repo" checkout -q -- . 
  if ! git -C "$repo" apply "$PWD/seeded/$id/patch.diff" 2>/dev/null; then echo "$id: patch does not apply (repo moved on)"; continue; fi
  checks=$(python3 -c "import json;print(' '.join(json.load(open('seeded/$id/meta.json'))['caught_by']))")
  caught=""
  for p in $checks; do
    out=$(./check.sh $p quick 2>&1); e=$?
    n=$(echo "$out" | grep -c '^VIOLATION')
    echo "$id $p exit=$e violations=$n $(echo "$out" | grep -E '^  C[0-9]+/' | head -1 | cut -c1-160)"
    [ $n -gt 0 ] && caught="$caught $p"
  done
  [ -z "$caught" ] && { echo "$id: NOT CAUGHT by any of: $checks"; missed=$((missed+1)); }
  git -C "$repo" checkout -q -- .
done
echo "regression over seeded changes done: $missed not caught"
exit $missed
