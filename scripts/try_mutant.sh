#!/bin/bash
# usage: try_mutant.sh <worktree> <mN> "<props to run>" [tier]
# 1. confirms the sub-agent's claims in the scratch worktree (demo passes on clean code, suite passes
#    with the change, demo fails with the change); 2. applies the change to /repo, runs the named
#    checks, and undoes it straight afterwards.
export GOFLAGS=-mod=mod GOPROXY=off GOSUMDB=off GOTOOLCHAIN=local
wt="$1"; m="$2"; props="$3"; tier="${4:-quick}"
diff="$wt/out/$m.diff"; demo="$wt/out/${m}_demo_test.go"
[ -f "$diff" ] || { echo "no $diff"; exit 2; }
tests=$(grep -oE '^func (Test[A-Za-z0-9_]+)' "$demo" | awk '{print $2}' | paste -sd'|'); [ -z "$tests" ] && tests=Demo
pkgdir="pkg/controller/statefulset"
grep -q '^package helper' "$demo" && pkgdir="client/apis/apps/v1/helper"
grep -q '^package v1' "$demo" && pkgdir="client/apis/apps/v1"
grep -q '^package k8s' "$demo" && pkgdir="pkg/third_party/k8s"
mod="$wt"; rel="./$pkgdir/"
case "$pkgdir" in client/*) mod="$wt/client"; rel="./${pkgdir#client/}/";; esac
git -C "$wt" checkout -q -- . ; rm -f "$wt/$pkgdir"/zz_seeded_demo_test.go
cp "$demo" "$wt/$pkgdir/zz_seeded_demo_test.go"
(cd "$mod" && go test -vet=off -count=1 -run "^($tests)\$" "$rel" >/tmp/tm_clean.log 2>&1); clean=$?
git -C "$wt" apply "$diff" || { echo "VERIFY: diff does not apply in worktree"; exit 2; }
(cd "$mod" && go test -vet=off -count=1 -run "^($tests)\$" "$rel" >/tmp/tm_mut.log 2>&1); mut=$?
rm -f "$wt/$pkgdir"/zz_seeded_demo_test.go
(cd "$wt" && go build ./pkg/... ./cmd/... && go test -vet=off -count=1 ./pkg/... ./cmd/... >/tmp/tm_suite.log 2>&1); s1=$?
(cd "$wt/client" && go build ./... && go test -vet=off -count=1 ./... >>/tmp/tm_suite.log 2>&1); s2=$?
git -C "$wt" checkout -q -- .
echo "VERIFY $m: demo_on_clean_exit=$clean (want 0) demo_with_change_exit=$mut (want !=0) suite_with_change=$s1/$s2 (want 0/0)"
if [ $clean -ne 0 ] || [ $mut -eq 0 ] || [ $s1 -ne 0 ] || [ $s2 -ne 0 ]; then echo "VERIFY FAILED"; tail -n 5 /tmp/tm_clean.log /tmp/tm_mut.log /tmp/tm_suite.log; exit 3; fi
[ -z "$props" ] && exit 0
[ -z "$(git -C /repo status --porcelain)" ] || { echo "/repo not clean"; exit 2; }
git -C /repo apply "$diff" || { echo "diff does not apply to /repo"; exit 2; }
for p in $props; do
  out=$(cd /verif && VERIF_DIR=/tmp/tm_verifdir ./check.sh $p $tier 2>&1); rc=$?   # evidence of a mutant run never lands in /verif/evidence
  echo "CHECK $p exit=$rc $(echo "$out" | grep -c '^VIOLATION') violation lines: $(echo "$out" | grep -E '^  C[0-9]+/' | head -3 | cut -c1-260 | tr '\n' '|')"
done
git -C /repo checkout -q -- .; rm -rf /tmp/tm_verifdir
[ -z "$(git -C /repo status --porcelain)" ] && echo "/repo restored"
