#!/bin/bash
# usage: scripts/determinism.sh [props] — runs single cases twice in separate processes with the full trace on and
# compares the traces: a scenario must be a function of (VERIF_SEED, case) alone. (The relative order of the claim
# creates of one pod is the controller's own map iteration and is left out of the comparison.)
cd "$(dirname "$0")/.." || exit 2
props="${1:-C02 C03 C06 C08 C09 C10 C11 C12 C13 C15 C16 C18}"
bad=0
for p in $props; do
  for c in 0 3 7 15 22 101 257 1001 2222; do
    a=$(VCHECK_TRACE=1 bin/vcheck -prop $p -case $c 2>&1 | grep -v "wall=\|create persistentvolumeclaims" | md5sum)
    b=$(VCHECK_TRACE=1 bin/vcheck -prop $p -case $c 2>&1 | grep -v "wall=\|create persistentvolumeclaims" | md5sum)
    if [ "$a" != "$b" ]; then echo "NONDETERMINISTIC $p case $c"; bad=$((bad+1)); fi
  done
done
echo "determinism: $bad differing (property, case) pairs"
exit $bad
