#!/usr/bin/env python3
"""automut_report.py <results.json> [<results2.json> ...] : summary of the operator-mutation sweep for DESIGN.md 7.1.
Later result files override earlier ones (re-runs after a check was strengthened). The triage of the mutants that no
check catches is in /verif/automut/triage.json: {"<file>:<line>:<new text>": "<class>: <reason>"}."""
import json, sys, collections, os

res = {}
for f in sys.argv[1:]:
    res.update(json.load(open(f)))
triage = json.load(open('/verif/automut/triage.json')) if os.path.exists('/verif/automut/triage.json') else {}
caught = {k: v for k, v in res.items() if v['caught']}
missed = {k: v for k, v in res.items() if not v['caught']}
print('mutants run against the checks: %d; caught: %d; not caught: %d' % (len(res), len(caught), len(missed)))
by = collections.Counter(v['caught'][0] for v in caught.values())
print('caught by (first check that fired): ' + ', '.join('%s %d' % kv for kv in sorted(by.items())))
byfile = collections.defaultdict(lambda: [0, 0])
for v in res.values():
    byfile[v['file']][0 if v['caught'] else 1] += 1
print()
print('| file | caught | not caught |')
print('|---|---|---|')
for f, (a, b) in sorted(byfile.items()):
    print('| `%s` | %d | %d |' % (f, a, b))
print()
classes = collections.Counter()
rows = []
for v in sorted(missed.values(), key=lambda v: (v['file'], v['line'])):
    key = '%s:%d:%s' % (v['file'], v['line'], v['new'])
    t = triage.get(key, 'UNTRIAGED')
    classes[t.split(':')[0]] += 1
    rows.append('| `%s:%d` | `%s` -> `%s` | %s |' % (os.path.basename(v['file']), v['line'], v['old'][:60].replace('|', '\\|'), v['new'][:60].replace('|', '\\|'), t))
print('not caught, by class: ' + ', '.join('%s %d' % kv for kv in classes.most_common()))
print()
print('| where | change | triage |')
print('|---|---|---|')
print('\n'.join(rows))
