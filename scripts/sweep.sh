#!/bin/bash
# usage: sweep.sh <tier> "<seeds>" [props...]  — runs checks at several VERIF_SEED values; for background use:
#   vp run --with-repo -- 'VERIF_REPO=$VP_RUN_REPO VERIF_DIR=$PWD/sweepout scripts/sweep.sh quick "2 3 5 8"'
tier="$1"; seeds="$2"; shift 2
props="$@"; [ -z "$props" ] && props="C01 C02 C03 C04 C05 C06 C07 C08 C09 C10 C11 C12 C13 C14 C15 C16 C17 C18 C19 C20"
cd "$(dirname "$0")/.." || exit 2
rc=0
for s in $seeds; do for p in $props; do
  out=$(VERIF_SEED=$s ./check.sh $p $tier 2>&1); e=$?
  echo "seed=$s $p exit=$e $(echo "$out" | grep -E 'tier=' | cut -c1-110) $(echo "$out" | grep -E '^(VIOLATION|INCONCLUSIVE|KNOWN|  C[0-9]+/)' | head -4 | cut -c1-300 | tr '\n' '|')"
  [ $e -ne 0 ] && rc=1
done; done
exit $rc
