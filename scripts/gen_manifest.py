#!/usr/bin/env python3
"""Generates /verif/MANIFEST.json from the table below (kept in one place so it stays valid)."""
import json, subprocess, os
V = os.path.dirname(os.path.dirname(os.path.abspath(__file__)))

SIM = ("Trusted base: simapi (in-memory API server behind the real generated fake clientsets) reproduces the API-server rules the property leans on "
       "(resourceVersion conflicts, status subresource, graceful pod deletion, owner-reference validation, immutable uid / ControllerRevision.data, GC by propagation policy); "
       "the Go runtime; held only on the executions observed (counts in the evidence file).")

CHECKS = {
 "C01": ("exploration", "Exhaustive enumeration of the bounded (replicas, slot set, annotation text) space against an independent 10-line spec, for all five client helpers and for the controller's create calls on an empty cluster; the space is finite and small so it is enumerated completely rather than sampled.", "4 C01",
         "exhaustive enumeration + differential oracle (refspec.Desired) over real helper and controller executions", "refspec.Desired is the specification; replicas kept <= 9 (allocation grows with the range)"),
 "C03": ("exploration", "Every pod delete issued in ~10^4 (quick) / ~5*10^5 (thorough) recorded reconciles of randomly generated hostile executions is classified against the snapshot that reconcile saw (outside desired set / terminal phase / outdated at-or-above partition); plus directed slot-k scenarios. A runtime oracle on every reconcile is the right level because the statement quantifies over every reachable snapshot, which cannot be enumerated.", "4 C03",
         "per-reconcile monitor over recorded API calls vs. the cached snapshot (stepping engine)", SIM),
 "C04": ("exploration", "Every pod create in the same executions is checked for: ordinal in the independently computed desired set, vacancy in the snapshot (or terminal pod just removed), no deletion timestamp on the set, no double create.", "4 C04",
         "per-reconcile monitor over recorded API calls vs. the cached snapshot (stepping engine)", SIM),
 "C05": ("exploration", "OrderedReady reconciles: at most one ordinal touched, predecessors healthy on create, scale-in only from the top with all desired pods Running+Ready, update only with nothing left to scale in.", "4 C05",
         "per-reconcile monitor (ordered-policy rules) over recorded API calls", SIM),
 "C07": ("exploration", "Update-class deletes checked for partition, highest-first order and one-at-a-time; created pods checked for the revision their ordinal calls for (label and template content); OnDelete never restarts.", "4 C07",
         "per-reconcile monitor (update-order / revision-of-created-pod) over recorded API calls", SIM),
 "C11": ("exploration", "Reconciles of paused sets must issue no write at all; reconciles of sets with a deletion timestamp only status writes and bookkeeping of revisions they own.", "4 C11",
         "per-reconcile flag monitor over recorded API calls", SIM),
 "C12": ("exploration", "Every status write is checked for bounds, observedGeneration and the currentRevision transition rule against the snapshot and the stored object before the call.", "4 C12",
         "per-write status monitor over recorded API calls", SIM),
 "C13": ("exploration", "Every ControllerRevision delete is checked for ownership, liveness, count-once, oldest-first and the limit; post-condition after each successful reconcile.", "4 C13",
         "per-reconcile history-delete monitor over recorded API calls", SIM),
 "C14": ("exploration", "Error-free Parallel reconciles must create every vacant desired ordinal and delete every live out-of-set pod in that same reconcile; update deletes <= 1.", "4 C14",
         "per-reconcile burst-completeness monitor over recorded API calls", SIM),
 "C15": ("exploration", "Panic monitor over generated CRD-admitted objects (admitted and defaulted by an interpreter of the shipped schema) x pod populations, in child processes so that a process-fatal crash is attributed to its logged input.", "4 C15",
         "panic / process-death monitor over generated admitted inputs", "the CRD interpreter in refspec/crd.go models type/required/minimum/default/preserve-unknown-fields; objects without spec and astronomically large replicas are outside the generated domain"),
}

NOT_YET = {
 "C02": "not claimed yet: convergence/quiescence check (calm phase) under construction",
 "C06": "not claimed yet: write-log monitor for identity/claims under construction",
 "C08": "not claimed yet: revision-store monitor under construction",
 "C09": "not claimed yet: fault enumeration with differential twin under construction",
 "C10": "not claimed yet: ownership monitor under construction",
 "C16": "not claimed yet: event-shape enumeration under construction",
 "C17": "not claimed yet: upgrade-helper fault enumeration under construction",
 "C18": "not claimed yet: migration byte/behaviour check under construction",
 "C19": "not claimed yet: round-trip monitors under construction",
 "C20": "not claimed yet: hijacked-watch schedule driver under construction",
}

def main():
    hooks = subprocess.run(["git","-C","/repo","log","--format=%H %s"],capture_output=True,text=True).stdout.splitlines()
    hook_commits = [l.split()[0] for l in hooks if " verif:" in l]
    m = {
     "version": 1,
     "setup_cmd": "./check.sh --build",
     "hooks": {
       "guard": "verif",
       "enable": "go build -tags verif (harness/go.mod replaces the two repository modules by /repo and /repo/client, so every check rebuilds from /repo's working tree)",
       "baseline_off_cmd": "/verif/scripts/baseline_off.sh",
       "source_commits": hook_commits,
       "add_only": True,
     },
     "engines": [
       {"name":"vcheck","path":"harness/cmd/vcheck","serves_properties":sorted(CHECKS),"kind_free_text":"runtime monitoring: real controller / client helpers driven by a seeded stepping engine over an instrumented in-memory API server (simapi); monitors are pure oracles over recorded reconciles and call logs"},
     ],
     "checks": [],
     "not_applicable": [{"property_id":k,"reason":v} for k,v in sorted(NOT_YET.items()) if k not in CHECKS],
     "notes": "Every check prints HELD / VIOLATION property=<id> replay=<path> / KNOWN-FINDING / INCONCLUSIVE (exit 0 / 1 / 0 / 3). Seeds: VERIF_SEED. known_findings.json lists fixed and open findings.",
    }
    for pid,(lvl,text,ref,tech,note) in sorted(CHECKS.items()):
        m["checks"].append({
          "property_id": pid,
          "quick_cmd": f"./check.sh {pid} quick",
          "thorough_cmd": f"./check.sh {pid} thorough",
          "evidence_file": f"/verif/evidence/{pid}.json",
          "replay_cmd_template": f"./check.sh {pid} --replay {{path}}",
          "engine": "vcheck",
          "level_claimed": {"category": lvl, "text": text, "design_ref": "DESIGN.md section "+ref},
          "level_note": note,
          "technique": tech,
        })
    json.dump(m, open(os.path.join(V,"MANIFEST.json"),"w"), indent=1)
    try:
        import jsonschema
        jsonschema.validate(m, json.load(open("/root/.vp/MANIFEST.schema.json")))
        print("MANIFEST.json valid;", len(m["checks"]), "checks,", len(m["not_applicable"]), "not claimed")
    except ImportError:
        print("written (jsonschema not importable here)")
main()
