#!/usr/bin/env python3
"""Generates /verif/MANIFEST.json from the table below (kept in one place so it stays valid)."""
import json, subprocess, os
V = os.path.dirname(os.path.dirname(os.path.abspath(__file__)))

SIM = ("Trusted base: simapi (in-memory API server behind the real generated fake clientsets) reproduces the API-server rules the property leans on "
       "(resourceVersion conflicts, status subresource, graceful pod deletion, owner-reference validation, immutable uid / ControllerRevision.data, GC by propagation policy); "
       "the Go runtime; held only on the executions observed (counts in the evidence file).")

CHECKS = {
 "C01": ("exploration", "Exhaustive enumeration of the bounded (replicas, slot set, annotation text) space against an independent 10-line spec, for all five client helpers and for the controller's create calls on an empty cluster; the space is finite and small so it is enumerated completely rather than sampled.", "4 C01",
         "exhaustive enumeration + differential oracle (refspec.Desired) over real helper and controller executions", "refspec.Desired is the specification; replicas kept <= 9 (allocation grows with the range)"),
 "C03": ("exploration", "Every pod delete issued in ~10^4 (quick) / ~5*10^5 (thorough) recorded reconciles of randomly generated hostile executions is classified against the snapshot that reconcile saw (outside desired set / terminal phase / outdated at-or-above partition); plus directed slot-k scenarios. A runtime oracle on every reconcile is the right level because the statement quantifies over every reachable snapshot, which cannot be enumerated.", "4 C03",
         "per-reconcile monitor over recorded API calls vs. the cached snapshot (stepping engine)", SIM),
 "C04": ("exploration", "Every pod create in the same executions is checked for: ordinal in the independently computed desired set, vacancy in the snapshot (or terminal pod just removed), no deletion timestamp on the set, no double create.", "4 C04",
         "per-reconcile monitor over recorded API calls vs. the cached snapshot (stepping engine)", SIM),
 "C05": ("exploration", "OrderedReady reconciles: at most one ordinal touched, predecessors healthy on create, scale-in only from the top with all desired pods Running+Ready, update only with nothing left to scale in.", "4 C05",
         "per-reconcile monitor (ordered-policy rules) over recorded API calls", SIM),
 "C07": ("exploration", "Update-class deletes checked for partition, highest-first order and one-at-a-time; created pods checked for the revision their ordinal calls for (label and template content); OnDelete never restarts.", "4 C07",
         "per-reconcile monitor (update-order / revision-of-created-pod) over recorded API calls", SIM),
 "C11": ("exploration", "Reconciles of paused sets must issue no write at all; reconciles of sets with a deletion timestamp only status writes and bookkeeping of revisions they own; a set deleting in the API never adopts; pause twins (same edits with and without a pause window, through the real handlers and queue) must end in the same converged state.", "4 C11",
         "per-reconcile flag monitor over recorded API calls + pause twins through the event-driven loop (differential final state)", SIM),
 "C12": ("exploration", "Every status write is checked for bounds, observedGeneration, the currentRevision transition rule and as a census of the snapshot (ready / replicas / current / updated) against the stored object before the call; census again at the quiescent fixed point, including after a failing last status write. The directed stale-status scenarios (conflict on the status write, cache catches up, retry) regress-test the repaired conflict-retry defect (known_findings.json: fixed).", "4 C12",
         "per-write status monitor (bounds, generation, revision transition, census of the snapshot) over recorded API calls + fixed-point census", SIM),
 "C13": ("exploration", "Every ControllerRevision delete is checked for ownership, liveness, count-once, oldest-first and the limit; post-condition after each successful reconcile; directed multi-revision trims in which the k-th revision delete fails.", "4 C13",
         "per-reconcile history-delete monitor over recorded API calls", SIM),
 "C14": ("exploration", "Error-free Parallel reconciles must create every vacant desired ordinal and delete every live out-of-set pod in that same reconcile; update deletes <= 1.", "4 C14",
         "per-reconcile burst-completeness monitor over recorded API calls", SIM),
 "C15": ("exploration", "Panic monitor over generated CRD-admitted objects (admitted and defaulted by an interpreter of the shipped schema) x pod populations (incl. ordinals at the ends of the int32 range) x revision populations (revisions without data or with arbitrary JSON data, orphaned or owned), in child processes so that a process-fatal crash is attributed to its logged input; event-handler deliveries (add / update / delete of the object, pod events) under the same monitor; hostile scenario family and long template histories (churn) as further workloads.", "4 C15",
         "panic / process-death monitor over generated admitted inputs", "the CRD interpreter in refspec/crd.go models type/required/minimum/default/preserve-unknown-fields; astronomically large replicas are outside the generated domain"),
}

CHECKS.update({
 "C02": ("exploration", "Bounded-progress restatement of the liveness claim: after a hostile random phase the calm phase must reach the target state and a write-free round within 10*(pods+replicas)+30 rounds, then stay write-free for 5 more, every pod the controller built running the template of the revision its label names; unbounded 'eventually' cannot be decided by a finite run and is said so.", "4 C02",
         "scenario-level convergence + quiescence monitor (bounded progress in logical rounds) over the stepping engine, event-driven epilogues through the real handlers/queue, live engine under the Go race detector", SIM),
 "C06": ("exploration", "Ordered write log of the real pod control: identity stamping of every created pod, claims exist before the pod create, failed claim blocks the pod, no claim rewritten/deleted; directed slot-in/slot-out histories compare claim UIDs; single claim faults enumerated in directed scenarios; set names at the DNS-label boundary (61-63 characters).", "4 C06",
         "write-log monitor over recorded API calls + directed histories", SIM),
 "C08": ("exploration", "After every successful reconcile the believed update revision is decoded independently and via the exported ApplyRevision and compared with the template; and must be the newest of the set's revisions; revision creates/renumbers judged; directed collision, rollback-after-collision and faulted-renumbering scenarios (both client conventions for the object returned next to an error).", "4 C08",
         "revision-store monitor over recorded API calls + directed collision scenarios", SIM),
 "C09": ("fault_enumeration", "Every call identity of a corpus of target reconciles x every applicable error kind x {before, applied-then-error, crash before, crash after}, singly and in (enumerated or sampled) pairs, through the real worker path; oracles: retry scheduled, recovery to the fault-free twin's final state, safety monitors armed on the partial work. Enumeration is the right level because the statement quantifies over call positions and error kinds, which are finite per reconcile.", "4 C09",
         "fault enumeration by call identity with a differential fault-free twin", SIM + " Crash points are before/after each API call (the controller keeps no state between calls)."),
 "C10": ("exploration", "Every controller write on pods/revisions/sets is judged against the owner of its target (from the snapshot / the stored object before the call), adoption must follow a confirming uncached read, caches are compared with pre-reconcile deep copies.", "4 C10",
         "per-write ownership monitor + cache-mutation detector over recorded API calls; live engine under the Go race detector", SIM),
 "C16": ("exploration", "Exhaustive enumeration of the event-shape space against the handlers the controller registered (captured at AddEventHandler), observed at the work queue with a reference model required ⊆ enqueued ⊆ allowed; worker bookkeeping with up to 24 consecutive injected failures on a virtual-time queue, and every API call of 15 working reconciles answered with a 500 through the real worker (AddRateLimited, no Forget).", "4 C16",
         "exhaustive event-shape enumeration + event sequences + queue-call monitor on a virtual-time work queue; live engine (quiescent => converged) under the Go race detector", "the virtual-time queue is the harness' implementation of workqueue.RateLimitingInterface; live informer path is exercised by the race tier only"),
 "C17": ("fault_enumeration", "Every API call position of helper.Upgrade x applicable error kind x {before, applied-then-error, crash before, crash after}, retried until success, plus sampled double faults, over generated built-in worlds; oracles on the combined log (orphan propagation, Advanced object equal at delete time, revisions relabelled, no pod/claim write) and differential final state.", "4 C17",
         "fault enumeration by call identity over the real upgrade helper with write-log monitor and differential final state", SIM),
 "C18": ("exploration", "Byte equality of revision data through the exported Match() against upstream's getPatch over the apps/v1 object for fuzzed templates (integers within the validation range and beyond 2^53, where the built-in controller's float64 round trip rounds); post-migration behaviour monitored on the real controller after the real Upgrade over worlds built by a reference built-in controller.", "4 C18",
         "differential byte check + post-migration reconcile monitor", SIM + " The reference built-in controller state (revision naming/labels/owners) is written from upstream's algorithm."),
 "C19": ("exploration", "Round-trip / idempotence / codec monitors over gofuzz-generated apps/v1 objects through the real conversion functions and the real hijack client over simapi; returned objects of every write compared with a following Get; every verb with a failing backend must hand the error on; slot/pause codecs over int32 extremes and annotation maps, and over two in-memory copies of one object version (same UID and resourceVersion).", "4 C19",
         "round-trip and idempotence monitors over generated objects", "the five unmodelled apps/v1 fields are derived by reflection and zeroed; simapi owns uid/resourceVersion/creationTimestamp like a real server"),
 "C20": ("exploration", "Goroutine-level driver for the hijacked watch: event sequences (consecutive events on other objects and on the same object at the same resourceVersion with other content) x prompt / late-closing source x consumer plans (incl. Stop while the relay is parked with an event in flight, decided from a goroutine dump) in child processes with production crash behaviour; sequence / closure / leak / source-stop oracles.", "4 C20",
         "schedule-driven producer/consumer/stopper harness with goroutine-dump leak detector, also under the Go race detector; process death attributed by logged input", "leak verdict = relay still parked 3 s after all other parties finished (state-based, wall clock only as watchdog)"),
})

NOT_YET = {}

def main():
    hooks = subprocess.run(["git","-C","/repo","log","--format=%H %s"],capture_output=True,text=True).stdout.splitlines()
    hook_commits = [l.split()[0] for l in hooks if " verif:" in l]
    m = {
     "version": 1,
     "setup_cmd": "./check.sh --build",
     "hooks": {
       "guard": "verif",
       "enable": "go build -tags verif (harness/go.mod replaces the two repository modules by /repo and /repo/client, so every check rebuilds from /repo's working tree)",
       "baseline_off_cmd": "/verif/scripts/baseline_off.sh",
       "source_commits": hook_commits,
       "add_only": True,
     },
     "engines": [
       {"name":"vcheck","path":"harness/cmd/vcheck","serves_properties":sorted(CHECKS),"kind_free_text":"runtime monitoring: real controller / client helpers driven by a seeded stepping engine over an instrumented in-memory API server (simapi); monitors are pure oracles over recorded reconciles and call logs"},
     ],
     "checks": [],
     "not_applicable": [{"property_id":k,"reason":v} for k,v in sorted(NOT_YET.items()) if k not in CHECKS],
     "notes": "Every check prints HELD / VIOLATION property=<id> replay=<path> / KNOWN-FINDING / INCONCLUSIVE (exit 0 / 1 / 0 / 3). Seeds: VERIF_SEED. known_findings.json lists fixed and open findings.",
    }
    for pid,(lvl,text,ref,tech,note) in sorted(CHECKS.items()):
        m["checks"].append({
          "property_id": pid,
          "quick_cmd": f"./check.sh {pid} quick",
          "thorough_cmd": f"./check.sh {pid} thorough",
          "evidence_file": f"/verif/evidence/{pid}.json",
          "replay_cmd_template": f"./check.sh {pid} --replay {{path}}",
          "engine": "vcheck",
          "level_claimed": {"category": lvl, "text": text, "design_ref": "DESIGN.md section "+ref},
          "level_note": note,
          "technique": tech,
        })
    json.dump(m, open(os.path.join(V,"MANIFEST.json"),"w"), indent=1)
    try:
        import jsonschema
        jsonschema.validate(m, json.load(open("/root/.vp/MANIFEST.schema.json")))
        print("MANIFEST.json valid;", len(m["checks"]), "checks,", len(m["not_applicable"]), "not claimed")
    except ImportError:
        print("written (jsonschema not importable here)")
main()
