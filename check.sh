#!/bin/bash
# usage: ./check.sh <property> <quick|thorough>   |   ./check.sh --build   |   ./check.sh <property> --replay <file>
# Rebuilds the harness against /repo's current working tree (replace directives
# in harness/go.mod) with the verif build tag, then runs the check.
export GOFLAGS=-mod=mod GOPROXY=off GOSUMDB=off GOTOOLCHAIN=local
cd "$(dirname "$0")" || exit 2
mkdir -p bin evidence replay
if [ "$1" = "--build" ]; then
  (cd harness && go build -tags verif -o ../bin/vcheck ./cmd/vcheck) || exit 2
  exit 0
fi
prop="$1"; shift
tier="${1:-${VERIF_TIER:-quick}}"
bin="bin/vcheck.$prop.$$"
(cd harness && go build -tags verif -o "../$bin" ./cmd/vcheck) || { echo "INCONCLUSIVE build failed"; exit 2; }
trap 'rm -f "$bin"' EXIT
if [ "$tier" = "--replay" ]; then
  "./$bin" -prop "$prop" -replay "$2"
else
  "./$bin" -prop "$prop" -tier "$tier"
fi
