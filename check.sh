#!/bin/bash
# usage: ./check.sh <property> <quick|thorough>   |   ./check.sh --build   |   ./check.sh <property> --replay <file>
# Rebuilds the harness against /repo's current working tree (replace directives
# in harness/go.mod) with the verif build tag, then runs the check.
# VERIF_REPO=<dir> builds against another copy of the repository instead (used for
# mutation runs and background sweeps on a snapshot); evidence then goes to VERIF_DIR or cwd.
export GOFLAGS=-mod=mod GOPROXY=off GOSUMDB=off GOTOOLCHAIN=local
cd "$(dirname "$0")" || exit 2
here="$(pwd)"
export VERIF_DIR="${VERIF_DIR:-$here}"
export VERIF_HOME="$here"
mkdir -p bin "$VERIF_DIR/evidence" "$VERIF_DIR/replay"
modflag=""
if [ -n "$VERIF_REPO" ]; then
  mf="$here/bin/go.$$.mod"
  sed "s#=> /repo/client#=> $VERIF_REPO/client#; s#=> /repo\$#=> $VERIF_REPO#" harness/go.mod > "$mf"
  cp harness/go.sum "${mf%.mod}.sum"
  modflag="-modfile=$mf"
fi
cleanup() { [ -n "$bin" ] && rm -f "$here/$bin"; rm -f "$here/bin/go.$$.mod" "$here/bin/go.$$.sum"; [ -n "$rbin" ] && rm -f "$here/$rbin"; }
if [ "$1" = "--build" ]; then
  (cd harness && go build $modflag -tags verif -o ../bin/vcheck ./cmd/vcheck && go build $modflag -race -tags verif -o ../bin/vcheck.race ./cmd/vcheck) || exit 2
  bin=""; rbin=""; cleanup; exit 0
fi
prop="$1"; shift
tier="${1:-${VERIF_TIER:-quick}}"
bin="bin/vcheck.$prop.$$"
trap cleanup EXIT
(cd harness && go build $modflag -tags verif -o "../$bin" ./cmd/vcheck) || { echo "INCONCLUSIVE build failed"; exit 2; }
# race tier: the checks with concurrent code under test also run a workload in a binary built with -race
case "$prop" in C02|C10|C16|C20)
  if [ "${VERIF_RACE:-1}" != "0" ]; then
    rbin="bin/vcheck.race.$prop.$$"
    (cd harness && go build $modflag -race -tags verif -o "../$rbin" ./cmd/vcheck) || { echo "INCONCLUSIVE race build failed"; exit 2; }
    export VCHECK_RACE_BIN="$here/$rbin"
  fi;;
esac
if [ "$tier" = "--replay" ]; then
  "./$bin" -prop "$prop" -replay "$2"
else
  "./$bin" -prop "$prop" -tier "$tier"
fi
