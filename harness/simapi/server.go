// Package simapi is an instrumented in-memory API server that stands behind the
// real generated fake clientsets (client-go's and the repository's). It is the
// observation boundary of the harness: every call the code under test issues is
// recorded (before/after object, outcome) and may be failed by a fault plan.
//
// The store is copy-on-write: a stored object is never mutated in place, so
// snapshots are shallow map copies and recorded Before/After pointers stay valid.
package simapi

import (
	runtime2 "runtime"

	"bytes"
	"encoding/json"
	"fmt"
	"sort"
	"strings"
	"sync"
	"time"

	asv1 "github.com/pingcap/advanced-statefulset/client/apis/apps/v1"
	pcfake "github.com/pingcap/advanced-statefulset/client/client/clientset/versioned/fake"
	appsv1 "k8s.io/api/apps/v1"
	corev1 "k8s.io/api/core/v1"
	apiequality "k8s.io/apimachinery/pkg/api/equality"
	apierrors "k8s.io/apimachinery/pkg/api/errors"
	"k8s.io/apimachinery/pkg/api/meta"
	metav1 "k8s.io/apimachinery/pkg/apis/meta/v1"
	"k8s.io/apimachinery/pkg/runtime"
	"k8s.io/apimachinery/pkg/runtime/schema"
	"k8s.io/apimachinery/pkg/types"
	"k8s.io/apimachinery/pkg/util/strategicpatch"
	"k8s.io/apimachinery/pkg/util/validation/field"
	"k8s.io/apimachinery/pkg/watch"
	kubefake "k8s.io/client-go/kubernetes/fake"
	ktesting "k8s.io/client-go/testing"
)

// Res names a resource as the harness sees it.
type Res string

const (
	Pods       Res = "pods"
	PVCs       Res = "persistentvolumeclaims"
	Revisions  Res = "controllerrevisions"
	Sets       Res = "statefulsets"      // apps.pingcap.com
	BuiltinSet Res = "statefulsets.apps" // apps/v1
	Events     Res = "events"
)

var AllRes = []Res{Pods, PVCs, Revisions, Sets, BuiltinSet}

func groupResource(r Res) schema.GroupResource {
	switch r {
	case Pods:
		return schema.GroupResource{Resource: "pods"}
	case PVCs:
		return schema.GroupResource{Resource: "persistentvolumeclaims"}
	case Revisions:
		return schema.GroupResource{Group: "apps", Resource: "controllerrevisions"}
	case Sets:
		return schema.GroupResource{Group: "apps.pingcap.com", Resource: "statefulsets"}
	case BuiltinSet:
		return schema.GroupResource{Group: "apps", Resource: "statefulsets"}
	}
	return schema.GroupResource{Resource: string(r)}
}

func groupKind(r Res) schema.GroupKind {
	switch r {
	case Pods:
		return schema.GroupKind{Kind: "Pod"}
	case PVCs:
		return schema.GroupKind{Kind: "PersistentVolumeClaim"}
	case Revisions:
		return schema.GroupKind{Group: "apps", Kind: "ControllerRevision"}
	case Sets:
		return schema.GroupKind{Group: "apps.pingcap.com", Kind: "StatefulSet"}
	case BuiltinSet:
		return schema.GroupKind{Group: "apps", Kind: "StatefulSet"}
	}
	return schema.GroupKind{Kind: string(r)}
}

// Call is one recorded API call of the code under test.
type Call struct {
	Seq      int
	Rec      int // reconcile id the call belongs to (0 = none)
	Actor    string
	Verb     string // get list create update patch delete
	Res      Res
	Sub      string
	NS, Name string
	Obj      runtime.Object // request body (deep copy), create/update
	Patch    []byte
	PatchTyp types.PatchType
	DelOpts  *metav1.DeleteOptions
	Selector string         // list label selector
	Before   runtime.Object // stored object before the call (immutable), nil if absent
	After    runtime.Object // stored object after the call, nil if absent/removed
	Result   runtime.Object // object returned to the caller (get/create/update/patch), immutable copy
	Err      string
	Reason   metav1.StatusReason
	Injected string // "" or kind/mode of the injected fault
	Occ      int    // n-th occurrence of Identity() inside its reconcile
	Applied  bool   // the write took effect in the store
}

func (c *Call) Identity() string {
	return fmt.Sprintf("%s|%s|%s|%s", c.Verb, c.Res, c.Sub, c.Name)
}
func (c *Call) IsWrite() bool { return c.Verb != "get" && c.Verb != "list" && c.Verb != "watch" }
func (c *Call) OK() bool      { return c.Err == "" }
func (c *Call) String() string {
	s := fmt.Sprintf("#%d r%d %s %s", c.Seq, c.Rec, c.Verb, c.Res)
	if c.Sub != "" {
		s += "/" + c.Sub
	}
	s += " " + c.NS + "/" + c.Name
	if c.Selector != "" {
		s += " sel=" + c.Selector
	}
	if c.Patch != nil {
		s += " patch=" + string(c.Patch)
	}
	if c.Err != "" {
		s += " ERR(" + string(c.Reason) + "): " + c.Err
	}
	if c.Injected != "" {
		s += " [injected " + c.Injected + "]"
	}
	return s
}

// Fault addresses one call by identity inside one reconcile.
type Fault struct {
	Rec      int    // reconcile id; 0 = any
	Identity string // verb|res|sub|name
	Occ      int
	Nth      int    // alternative addressing: the n-th (1-based) call of the reconcile, whatever it is
	Kind     string // "500" "timeout" "conflict" "notfound" "exists"
	Mode     string // "before" "after" "crash"
	Fired    bool
}

func (f *Fault) String() string {
	return fmt.Sprintf("%s#%d@r%d %s/%s", f.Identity, f.Occ, f.Rec, f.Kind, f.Mode)
}

// CrashSentinel is the panic value used by crash-mode faults.
type CrashSentinel struct{ At string }

type Snapshot map[Res]map[string]runtime.Object

func (s Snapshot) Get(r Res, ns, name string) runtime.Object { return s[r][ns+"/"+name] }
func (s Snapshot) List(r Res, ns string) []runtime.Object {
	var keys []string
	for k := range s[r] {
		if ns == "" || strings.HasPrefix(k, ns+"/") {
			keys = append(keys, k)
		}
	}
	sort.Strings(keys)
	out := make([]runtime.Object, 0, len(keys))
	for _, k := range keys {
		out = append(out, s[r][k])
	}
	return out
}

type gcTask struct {
	OwnerUID types.UID
	Policy   metav1.DeletionPropagation
}

type Server struct {
	// NilOnError: failed calls return a nil object next to the error, as the generated fake clientsets do
	// (the default is the real typed clients' convention: a non-nil zero object). Code that is correct
	// under both conventions is what the repository's own tests and production respectively rely on.
	NilOnError bool
	mu         sync.Mutex
	Kube       *kubefake.Clientset
	PC         *pcfake.Clientset
	store      Snapshot
	rv         uint64
	uid        uint64
	tick       int64
	seq        int

	log                []*Call
	curRec             int
	recCalls           int
	chaosN, chaosCount int
	recGoroutine       uint64
	// CrashOnForeignGoroutine counts crash faults degraded to plain failures (see applyFault).
	CrashOnForeignGoroutine int
	curActor                string
	occ                     map[string]int
	faults                  []*Fault
	EventCount              int
	gcq                     []gcTask
	watchers                map[Res][]*watcher
	history                 map[Res][]histEv
	// KeepHistory makes the server remember watch events so that a watch can start from an
	// older resourceVersion (needed by real informers: list, then watch from the list's version).
	KeepHistory bool
	// RejectDataMutation counts attempts to change ControllerRevision.data (422).
	RejectDataMutation int
	// AfterCall, if set, is called after every recorded call, outside the server lock.
	AfterCall func(c *Call)
	// OnWrite, if set, is called (under the lock) after every applied change.
	OnWrite func(res Res, before, after runtime.Object)
}

var baseTime = time.Date(2020, 1, 1, 0, 0, 0, 0, time.UTC)

func New() *Server {
	s := &Server{store: Snapshot{}, occ: map[string]int{}, watchers: map[Res][]*watcher{}, history: map[Res][]histEv{}, curActor: "controller"}
	for _, r := range AllRes {
		s.store[r] = map[string]runtime.Object{}
	}
	s.Kube = kubefake.NewSimpleClientset()
	s.PC = pcfake.NewSimpleClientset()
	s.Kube.PrependReactor("*", "*", func(a ktesting.Action) (bool, runtime.Object, error) { return s.react(a, false) })
	s.PC.PrependReactor("*", "*", func(a ktesting.Action) (bool, runtime.Object, error) { return s.react(a, true) })
	s.Kube.PrependWatchReactor("*", func(a ktesting.Action) (bool, watch.Interface, error) { return s.reactWatch(a, false) })
	s.PC.PrependWatchReactor("*", func(a ktesting.Action) (bool, watch.Interface, error) { return s.reactWatch(a, true) })
	return s
}

// Reset empties the store, the log and the fault plan (counters keep growing so
// UIDs / resourceVersions stay unique inside a process).
func (s *Server) Reset() {
	s.mu.Lock()
	defer s.mu.Unlock()
	for _, r := range AllRes {
		s.store[r] = map[string]runtime.Object{}
	}
	s.log = nil
	s.faults = nil
	s.occ = map[string]int{}
	s.curRec = 0
	s.NilOnError = false
	s.gcq = nil
	s.curActor = "controller"
}

func (s *Server) now() metav1.Time {
	s.tick++
	return metav1.NewTime(baseTime.Add(time.Duration(s.tick) * time.Second))
}

func resOf(a ktesting.Action, pc bool) Res {
	gvr := a.GetResource()
	if gvr.Resource == "statefulsets" {
		if pc || gvr.Group == "apps.pingcap.com" {
			return Sets
		}
		return BuiltinSet
	}
	return Res(gvr.Resource)
}

func newList(r Res) runtime.Object {
	switch r {
	case Pods:
		return &corev1.PodList{}
	case PVCs:
		return &corev1.PersistentVolumeClaimList{}
	case Revisions:
		return &appsv1.ControllerRevisionList{}
	case Sets:
		return &asv1.StatefulSetList{}
	case BuiltinSet:
		return &appsv1.StatefulSetList{}
	}
	return nil
}

func newObj(r Res) runtime.Object {
	switch r {
	case Pods:
		return &corev1.Pod{}
	case PVCs:
		return &corev1.PersistentVolumeClaim{}
	case Revisions:
		return &appsv1.ControllerRevision{}
	case Sets:
		return &asv1.StatefulSet{}
	case BuiltinSet:
		return &appsv1.StatefulSet{}
	}
	return nil
}

func acc(o runtime.Object) metav1.Object {
	m, err := meta.Accessor(o)
	if err != nil {
		panic(err)
	}
	return m
}

// ---------------------------------------------------------------------------
// reactor

func (s *Server) react(a ktesting.Action, pc bool) (bool, runtime.Object, error) {
	res := resOf(a, pc)
	if res == Events {
		s.mu.Lock()
		s.EventCount++
		s.mu.Unlock()
		if ca, ok := a.(ktesting.CreateAction); ok {
			return true, ca.GetObject(), nil
		}
		if ua, ok := a.(ktesting.UpdateAction); ok {
			return true, ua.GetObject(), nil
		}
		if _, ok := a.(ktesting.PatchAction); ok {
			return true, &corev1.Event{}, nil
		}
		return true, nil, nil
	}
	if _, ok := s.store[res]; !ok {
		return true, nil, apierrors.NewInternalError(fmt.Errorf("simapi: unsupported resource %q", res))
	}
	var done *Call
	defer func() {
		// after the server lock is released: lets the engine model an informer that catches up
		// while the reconcile is still running
		if done != nil && s.AfterCall != nil {
			s.AfterCall(done)
		}
	}()
	s.mu.Lock()
	defer s.mu.Unlock()

	c := &Call{Actor: s.curActor, Rec: s.curRec, Verb: a.GetVerb(), Res: res, Sub: a.GetSubresource(), NS: a.GetNamespace()}
	switch t := a.(type) {
	case ktesting.GetActionImpl:
		c.Name = t.GetName()
	case ktesting.ListActionImpl:
		c.Selector = t.GetListRestrictions().Labels.String()
	case ktesting.CreateActionImpl:
		c.Obj = t.GetObject().DeepCopyObject()
		c.Name = acc(c.Obj).GetName()
	case ktesting.UpdateActionImpl:
		c.Obj = t.GetObject().DeepCopyObject()
		c.Name = acc(c.Obj).GetName()
	case ktesting.PatchActionImpl:
		c.Name = t.GetName()
		c.Patch = append([]byte(nil), t.GetPatch()...)
		c.PatchTyp = t.GetPatchType()
	case ktesting.DeleteActionImpl:
		c.Name = t.GetName()
		o := t.DeleteOptions
		c.DelOpts = &o
	default:
		return true, nil, apierrors.NewInternalError(fmt.Errorf("simapi: unsupported action %T", a))
	}
	id := fmt.Sprintf("%d|%s", c.Rec, c.Identity())
	c.Occ = s.occ[id]
	s.occ[id]++
	s.seq++
	c.Seq = s.seq
	s.log = append(s.log, c)
	c.Before = s.store[res][c.NS+"/"+c.Name]

	f := s.matchFault(c)
	if f == nil && s.chaosN > 0 && c.Actor == "controller" {
		// live-mode chaos: every chaosN-th controller call fails (500 or a conflict), nothing applied
		s.chaosCount++
		if s.chaosCount%s.chaosN == 0 {
			kind := "500"
			if c.Verb == "update" && s.chaosCount%(2*s.chaosN) == 0 {
				kind = "conflict"
			}
			f = &Fault{Kind: kind, Mode: "before"}
		}
	}
	var ret runtime.Object
	var err error
	if f != nil {
		ret, err = s.applyFault(c, f)
	} else {
		ret, err = s.do(c)
	}
	c.After = s.store[res][c.NS+"/"+c.Name]
	if err != nil {
		c.Err = err.Error()
		c.Reason = apierrors.ReasonForError(err)
	}
	if ret != nil && c.Verb != "list" {
		c.Result = ret.DeepCopyObject()
	}
	if err != nil && ret == nil && c.Verb != "delete" && !s.NilOnError {
		// like the real typed clients (and unlike the generated fakes' default), a failed call still hands
		// back a non-nil zero object next to the error
		if c.Verb == "list" {
			ret = newList(c.Res)
		} else {
			ret = newObj(c.Res)
		}
	}
	done = c
	return true, ret, err
}

// ValidKind tells whether a real API server can answer verb with that error kind.
func ValidKind(verb, kind string) bool {
	switch kind {
	case "500", "timeout":
		return true
	case "notfound":
		return verb == "get" || verb == "update" || verb == "patch" || verb == "delete"
	case "exists":
		return verb == "create"
	case "conflict":
		return verb == "update"
	}
	return false
}

func (s *Server) matchFault(c *Call) *Fault {
	s.recCalls++
	for _, f := range s.faults {
		if f.Fired {
			continue
		}
		if f.Rec != 0 && f.Rec != c.Rec {
			continue
		}
		if f.Nth > 0 {
			if c.Rec == 0 || f.Nth != s.recCalls {
				continue
			}
			if !ValidKind(c.Verb, f.Kind) {
				f.Kind = "500"
			}
			return f
		}
		if f.Identity != c.Identity() || f.Occ != c.Occ {
			continue
		}
		return f
	}
	return nil
}

func goroutineID() uint64 {
	var buf [64]byte
	n := runtime2.Stack(buf[:], false)
	// "goroutine 123 [running]:"
	var id uint64
	for _, ch := range buf[len("goroutine "):n] {
		if ch < '0' || ch > '9' {
			break
		}
		id = id*10 + uint64(ch-'0')
	}
	return id
}

func faultErr(c *Call, kind string) error {
	gr := groupResource(c.Res)
	switch kind {
	case "500":
		return apierrors.NewInternalError(fmt.Errorf("injected server error"))
	case "timeout":
		return apierrors.NewServerTimeout(gr, c.Verb, 1)
	case "conflict":
		return apierrors.NewConflict(gr, c.Name, fmt.Errorf("injected: the object has been modified"))
	case "notfound":
		return apierrors.NewNotFound(gr, c.Name)
	case "exists":
		return apierrors.NewAlreadyExists(gr, c.Name)
	}
	return apierrors.NewInternalError(fmt.Errorf("injected %s", kind))
}

func (s *Server) applyFault(c *Call, f *Fault) (runtime.Object, error) {
	f.Fired = true
	c.Injected = f.Kind + "/" + f.Mode
	key := c.NS + "/" + c.Name
	mode := f.Mode
	if strings.HasPrefix(mode, "crash") && s.recGoroutine != 0 && goroutineID() != s.recGoroutine {
		// the code under test issued this call from a goroutine of its own: a panic there could not be
		// caught at the top of the reconcile (it would kill the harness), so the process death is
		// degraded to the corresponding plain failure
		s.CrashOnForeignGoroutine++
		mode = strings.TrimPrefix(mode, "crash-")
		c.Injected += " (degraded: foreign goroutine)"
	}
	switch mode {
	case "crash-before":
		c.After = c.Before // nothing was applied
		c.Err = "the process died before this call (injected)"
		panic(CrashSentinel{At: c.String()})
	case "crash-after":
		s.do(c)
		c.After = s.store[c.Res][key]
		c.Err = "the process died before it saw the reply (injected)"
		panic(CrashSentinel{At: c.String()})
	}
	switch f.Kind {
	case "notfound":
		// consistent: somebody else really removed the object first.
		if old := s.store[c.Res][key]; old != nil {
			s.remove(c.Res, key, old)
			if c.Res == Sets || c.Res == BuiltinSet {
				// its dependents are left to the garbage collector like after any other deletion
				s.gcq = append(s.gcq, gcTask{OwnerUID: acc(old).GetUID(), Policy: metav1.DeletePropagationBackground})
			}
		}
		return s.do(c)
	case "exists":
		// consistent: somebody else (or a lost earlier attempt) really created it.
		if s.store[c.Res][key] == nil {
			s.do(c)
		}
		return nil, faultErr(c, "exists")
	case "conflict":
		// consistent: somebody else touched the object first.
		if old := s.store[c.Res][key]; old != nil {
			n := old.DeepCopyObject()
			s.put(c.Res, key, old, n)
		}
		return nil, faultErr(c, "conflict")
	}
	if mode == "after" {
		s.do(c)
	}
	return nil, faultErr(c, f.Kind)
}

// ---------------------------------------------------------------------------
// core verbs (shared by the reactor path and by the direct/actor path)

func (s *Server) put(res Res, key string, old, n runtime.Object) {
	s.rv++
	acc(n).SetResourceVersion(fmt.Sprint(s.rv))
	s.store[res][key] = n
	if s.OnWrite != nil {
		s.OnWrite(res, old, n)
	}
	if old == nil {
		s.notify(res, watch.Added, n)
	} else {
		s.notify(res, watch.Modified, n)
	}
}

func (s *Server) remove(res Res, key string, old runtime.Object) {
	delete(s.store[res], key)
	s.rv++
	if s.OnWrite != nil {
		s.OnWrite(res, old, nil)
	}
	last := old.DeepCopyObject()
	acc(last).SetResourceVersion(fmt.Sprint(s.rv))
	s.notify(res, watch.Deleted, last)
}

func invalid(res Res, name, fld, msg string) error {
	return apierrors.NewInvalid(groupKind(res), name, field.ErrorList{field.Invalid(field.NewPath(fld), "", msg)})
}

func validateOwners(res Res, m metav1.Object) error {
	n := 0
	seen := map[types.UID]bool{}
	for _, o := range m.GetOwnerReferences() {
		if o.Controller != nil && *o.Controller {
			n++
		}
		if seen[o.UID] {
			return invalid(res, m.GetName(), "metadata.ownerReferences", "duplicate owner uid")
		}
		seen[o.UID] = true
		if o.UID == "" || o.Name == "" || o.Kind == "" || o.APIVersion == "" {
			return invalid(res, m.GetName(), "metadata.ownerReferences", "incomplete owner reference")
		}
	}
	if n > 1 {
		return invalid(res, m.GetName(), "metadata.ownerReferences", "Only one reference can have Controller set to true")
	}
	return nil
}

func (s *Server) do(c *Call) (runtime.Object, error) {
	key := c.NS + "/" + c.Name
	gr := groupResource(c.Res)
	cur := s.store[c.Res][key]
	switch c.Verb {
	case "get":
		if cur == nil {
			return nil, apierrors.NewNotFound(gr, c.Name)
		}
		return cur.DeepCopyObject(), nil
	case "list":
		l := newList(c.Res)
		var items []runtime.Object
		for _, o := range (Snapshot(s.store)).List(c.Res, c.NS) {
			items = append(items, o.DeepCopyObject())
		}
		if err := meta.SetList(l, items); err != nil {
			return nil, apierrors.NewInternalError(err)
		}
		if lm, err := meta.ListAccessor(l); err == nil {
			lm.SetResourceVersion(fmt.Sprint(s.rv))
		}
		return l, nil
	case "create":
		if c.Name == "" {
			return nil, invalid(c.Res, c.Name, "metadata.name", "name is required")
		}
		if cur != nil {
			return nil, apierrors.NewAlreadyExists(gr, c.Name)
		}
		n := c.Obj.DeepCopyObject()
		m := acc(n)
		if m.GetNamespace() == "" {
			m.SetNamespace(c.NS)
		} else if m.GetNamespace() != c.NS {
			return nil, apierrors.NewBadRequest("the namespace of the provided object does not match the namespace sent on the request")
		}
		if m.GetResourceVersion() != "" {
			return nil, apierrors.NewBadRequest("resourceVersion should not be set on objects to be created")
		}
		if err := validateOwners(c.Res, m); err != nil {
			return nil, err
		}
		s.uid++
		m.SetUID(types.UID(fmt.Sprintf("uid-%d", s.uid)))
		m.SetCreationTimestamp(s.now())
		m.SetDeletionTimestamp(nil)
		m.SetGeneration(1)
		switch t := n.(type) {
		case *asv1.StatefulSet:
			t.Status = asv1.StatefulSetStatus{}
		case *appsv1.StatefulSet:
			t.Status = appsv1.StatefulSetStatus{}
		case *corev1.Pod:
			t.Status = corev1.PodStatus{Phase: corev1.PodPending}
		}
		s.put(c.Res, key, nil, n)
		c.Applied = true
		return n.DeepCopyObject(), nil
	case "update":
		if cur == nil {
			return nil, apierrors.NewNotFound(gr, c.Name)
		}
		n := c.Obj.DeepCopyObject()
		m, cm := acc(n), acc(cur)
		if rv := m.GetResourceVersion(); rv != "" && rv != cm.GetResourceVersion() {
			return nil, apierrors.NewConflict(gr, c.Name, fmt.Errorf("the object has been modified; please apply your changes to the latest version and try again"))
		}
		if uid := m.GetUID(); uid != "" && uid != cm.GetUID() {
			return nil, apierrors.NewConflict(gr, c.Name, fmt.Errorf("Precondition failed: UID in precondition: %v, UID in object meta: %v", uid, cm.GetUID()))
		}
		var err error
		n, err = s.mergeUpdate(c, cur, n)
		if err != nil {
			return nil, err
		}
		if err := validateOwners(c.Res, acc(n)); err != nil {
			return nil, err
		}
		if s.unchanged(cur, n) {
			// like the real server: a write that changes nothing is not persisted (no new resourceVersion, no event)
			c.Applied = true
			return cur.DeepCopyObject(), nil
		}
		s.put(c.Res, key, cur, n)
		c.Applied = true
		return n.DeepCopyObject(), nil
	case "patch":
		if cur == nil && c.PatchTyp == types.ApplyPatchType {
			// server-side apply of an object that does not exist yet creates it
			n := newObj(c.Res)
			if err := json.Unmarshal(c.Patch, n); err != nil {
				return nil, apierrors.NewBadRequest(err.Error())
			}
			acc(n).SetName(c.Name)
			acc(n).SetResourceVersion("")
			cc := *c
			cc.Verb, cc.Obj = "create", n
			ret, err := s.do(&cc)
			c.Applied = cc.Applied
			return ret, err
		}
		if cur == nil {
			return nil, apierrors.NewNotFound(gr, c.Name)
		}
		n, err := applyPatch(c.Res, cur, c.PatchTyp, c.Patch)
		if err != nil {
			return nil, err
		}
		if acc(n).GetUID() != acc(cur).GetUID() {
			return nil, invalid(c.Res, c.Name, "metadata.uid", "field is immutable")
		}
		n, err = s.mergeUpdate(c, cur, n)
		if err != nil {
			return nil, err
		}
		if err := validateOwners(c.Res, acc(n)); err != nil {
			return nil, err
		}
		if s.unchanged(cur, n) {
			c.Applied = true
			return cur.DeepCopyObject(), nil
		}
		s.put(c.Res, key, cur, n)
		c.Applied = true
		return n.DeepCopyObject(), nil
	case "delete":
		if cur == nil {
			return nil, apierrors.NewNotFound(gr, c.Name)
		}
		if c.DelOpts != nil && c.DelOpts.Preconditions != nil {
			p := c.DelOpts.Preconditions
			if p.UID != nil && *p.UID != acc(cur).GetUID() {
				return nil, apierrors.NewConflict(gr, c.Name, fmt.Errorf("Precondition failed: UID"))
			}
			if p.ResourceVersion != nil && *p.ResourceVersion != acc(cur).GetResourceVersion() {
				return nil, apierrors.NewConflict(gr, c.Name, fmt.Errorf("Precondition failed: ResourceVersion"))
			}
		}
		s.deleteObj(c.Res, key, cur, c.DelOpts)
		c.Applied = true
		return nil, nil
	}
	return nil, apierrors.NewInternalError(fmt.Errorf("simapi: unsupported verb %q", c.Verb))
}

// mergeUpdate applies the server-side rules on what an update may change.
func (s *Server) mergeUpdate(c *Call, cur, n runtime.Object) (runtime.Object, error) {
	m, cm := acc(n), acc(cur)
	if m.GetNamespace() == "" {
		m.SetNamespace(cm.GetNamespace())
	}
	m.SetUID(cm.GetUID())
	m.SetCreationTimestamp(cm.GetCreationTimestamp())
	m.SetDeletionTimestamp(cm.GetDeletionTimestamp())
	m.SetGeneration(cm.GetGeneration())
	switch t := n.(type) {
	case *asv1.StatefulSet:
		o := cur.(*asv1.StatefulSet)
		if c.Sub == "status" {
			st := t.Status
			t = o.DeepCopy()
			t.Status = st
			return t, nil
		}
		t.Status = *o.Status.DeepCopy()
		if !apiequality.Semantic.DeepEqual(t.Spec, o.Spec) {
			t.Generation = o.Generation + 1
		}
	case *appsv1.StatefulSet:
		o := cur.(*appsv1.StatefulSet)
		if c.Sub == "status" {
			st := t.Status
			t = o.DeepCopy()
			t.Status = st
			return t, nil
		}
		t.Status = *o.Status.DeepCopy()
		if !apiequality.Semantic.DeepEqual(t.Spec, o.Spec) {
			t.Generation = o.Generation + 1
		}
	case *corev1.Pod:
		o := cur.(*corev1.Pod)
		if c.Sub == "status" {
			st := t.Status
			t = o.DeepCopy()
			t.Status = st
			return t, nil
		}
		t.Status = *o.Status.DeepCopy()
		t.Spec.NodeName = o.Spec.NodeName
	case *appsv1.ControllerRevision:
		o := cur.(*appsv1.ControllerRevision)
		if !rawEqual(t.Data, o.Data) {
			s.RejectDataMutation++
			return nil, invalid(c.Res, c.Name, "data", "field is immutable")
		}
	}
	return n, nil
}

// unchanged reports whether n equals cur apart from resourceVersion / managed fields.
func (s *Server) unchanged(cur, n runtime.Object) bool {
	a, b := cur.DeepCopyObject(), n.DeepCopyObject()
	for _, o := range []runtime.Object{a, b} {
		m := acc(o)
		m.SetResourceVersion("")
		m.SetManagedFields(nil)
		o.GetObjectKind().SetGroupVersionKind(schema.GroupVersionKind{})
	}
	return apiequality.Semantic.DeepEqual(a, b)
}

func rawEqual(a, b runtime.RawExtension) bool {
	return string(a.Raw) == string(b.Raw)
}

func applyPatch(res Res, cur runtime.Object, pt types.PatchType, patch []byte) (runtime.Object, error) {
	orig, err := json.Marshal(cur)
	if err != nil {
		return nil, apierrors.NewInternalError(err)
	}
	var out []byte
	switch pt {
	case types.StrategicMergePatchType:
		out, err = strategicpatch.StrategicMergePatch(orig, patch, newObj(res))
	case types.MergePatchType, types.ApplyPatchType: // apply on an existing object is approximated by a merge
		var po, oo map[string]interface{}
		dec := func(b []byte, v interface{}) error { // keep 64-bit integers exact
			d := json.NewDecoder(bytes.NewReader(b))
			d.UseNumber()
			return d.Decode(v)
		}
		if err = dec(patch, &po); err == nil {
			if err = dec(orig, &oo); err == nil {
				out, err = json.Marshal(mergeMaps(oo, po))
			}
		}
	default:
		return nil, apierrors.NewBadRequest(fmt.Sprintf("simapi: unsupported patch type %s", pt))
	}
	if err != nil {
		return nil, apierrors.NewBadRequest(err.Error())
	}
	n := newObj(res)
	if err := json.Unmarshal(out, n); err != nil {
		return nil, apierrors.NewBadRequest(err.Error())
	}
	return n, nil
}

func mergeMaps(dst, patch map[string]interface{}) map[string]interface{} {
	for k, v := range patch {
		if v == nil {
			delete(dst, k)
			continue
		}
		if pm, ok := v.(map[string]interface{}); ok {
			if dm, ok := dst[k].(map[string]interface{}); ok {
				dst[k] = mergeMaps(dm, pm)
				continue
			}
		}
		dst[k] = v
	}
	return dst
}

// deleteObj implements deletion as the API server does it for the kinds used.
func (s *Server) deleteObj(res Res, key string, cur runtime.Object, opts *metav1.DeleteOptions) {
	m := acc(cur)
	graceful := false
	if p, ok := cur.(*corev1.Pod); ok {
		graceful = p.Spec.NodeName != "" && p.Status.Phase != corev1.PodFailed && p.Status.Phase != corev1.PodSucceeded
		if opts != nil && opts.GracePeriodSeconds != nil && *opts.GracePeriodSeconds == 0 {
			graceful = false
		}
	}
	if graceful || len(m.GetFinalizers()) > 0 {
		if m.GetDeletionTimestamp() != nil {
			return // already terminating: no change
		}
		n := cur.DeepCopyObject()
		t := s.now()
		acc(n).SetDeletionTimestamp(&t)
		s.put(res, key, cur, n)
		return
	}
	s.remove(res, key, cur)
	if res == Sets || res == BuiltinSet {
		pol := metav1.DeletePropagationBackground
		if opts != nil && opts.PropagationPolicy != nil {
			pol = *opts.PropagationPolicy
		}
		s.gcq = append(s.gcq, gcTask{OwnerUID: m.GetUID(), Policy: pol})
	}
}

// ---------------------------------------------------------------------------
// API for the engine and the environment actors (never goes through the
// clientsets, never faulted, recorded with the actor's name only when asked)

// BeginReconcile tags subsequent reactor calls with a reconcile id.
func (s *Server) BeginReconcile(id int) {
	s.mu.Lock()
	s.curRec = id
	s.recCalls = 0
	s.recGoroutine = goroutineID()
	s.mu.Unlock()
}
func (s *Server) EndReconcile() {
	s.mu.Lock()
	s.curRec = 0
	s.mu.Unlock()
}

// SetActor sets the actor name recorded for reactor calls ("controller", "upgrade-helper", "client").
func (s *Server) SetActor(a string) {
	s.mu.Lock()
	s.curActor = a
	s.mu.Unlock()
}

// SetChaos makes every n-th controller call fail (0 switches it off).
func (s *Server) SetChaos(n int) {
	s.mu.Lock()
	s.chaosN = n
	s.mu.Unlock()
}

func (s *Server) AddFault(f *Fault) {
	s.mu.Lock()
	s.faults = append(s.faults, f)
	s.mu.Unlock()
}
func (s *Server) ClearFaults() {
	s.mu.Lock()
	s.faults = nil
	s.mu.Unlock()
}

// Log returns the calls recorded since index from.
func (s *Server) Log(from int) []*Call {
	s.mu.Lock()
	defer s.mu.Unlock()
	return append([]*Call(nil), s.log[from:]...)
}
func (s *Server) LogLen() int {
	s.mu.Lock()
	defer s.mu.Unlock()
	return len(s.log)
}

// TrimLog drops the recorded calls (used between scenarios / long runs).
func (s *Server) TrimLog() {
	s.mu.Lock()
	s.log = nil
	s.occ = map[string]int{}
	s.mu.Unlock()
	s.Kube.ClearActions()
	s.PC.ClearActions()
}

func (s *Server) Snap() Snapshot {
	s.mu.Lock()
	defer s.mu.Unlock()
	out := Snapshot{}
	for r, m := range s.store {
		c := make(map[string]runtime.Object, len(m))
		for k, v := range m {
			c[k] = v
		}
		out[r] = c
	}
	return out
}

// Get returns the stored (immutable) object or nil.
func (s *Server) Get(res Res, ns, name string) runtime.Object {
	s.mu.Lock()
	defer s.mu.Unlock()
	return s.store[res][ns+"/"+name]
}

// Direct performs a verb on behalf of an environment actor. The object is
// stamped like a real write (uid/rv/timestamps) but never faulted.
func (s *Server) Direct(actor, verb string, res Res, sub string, obj runtime.Object, ns, name string, opts *metav1.DeleteOptions) (runtime.Object, error) {
	s.mu.Lock()
	defer s.mu.Unlock()
	c := &Call{Actor: actor, Verb: verb, Res: res, Sub: sub, NS: ns, Name: name, DelOpts: opts}
	if obj != nil {
		c.Obj = obj.DeepCopyObject()
		m := acc(c.Obj)
		c.Name = m.GetName()
		if m.GetNamespace() != "" {
			c.NS = m.GetNamespace()
		}
	}
	return s.do(c)
}

// Seed stores obj verbatim except for uid / resourceVersion / creationTimestamp
// which are assigned when empty. It is how scenarios build hostile initial
// states (status, phases, deletionTimestamps as given).
func (s *Server) Seed(res Res, obj runtime.Object) runtime.Object {
	s.mu.Lock()
	defer s.mu.Unlock()
	n := obj.DeepCopyObject()
	m := acc(n)
	if m.GetUID() == "" {
		s.uid++
		m.SetUID(types.UID(fmt.Sprintf("uid-%d", s.uid)))
	}
	if ts := m.GetCreationTimestamp(); ts.IsZero() {
		m.SetCreationTimestamp(s.now())
	}
	if m.GetGeneration() == 0 {
		m.SetGeneration(1)
	}
	key := m.GetNamespace() + "/" + m.GetName()
	s.put(res, key, s.store[res][key], n)
	return n
}

// Mutate replaces a stored object by fn(copy) (environment actors: kubelet, user).
// Generation of sets is bumped on spec change like a real update.
func (s *Server) Mutate(res Res, ns, name string, fn func(o runtime.Object)) runtime.Object {
	s.mu.Lock()
	defer s.mu.Unlock()
	key := ns + "/" + name
	cur := s.store[res][key]
	if cur == nil {
		return nil
	}
	n := cur.DeepCopyObject()
	fn(n)
	switch t := n.(type) {
	case *asv1.StatefulSet:
		if !apiequality.Semantic.DeepEqual(t.Spec, cur.(*asv1.StatefulSet).Spec) {
			t.Generation++
		}
	case *appsv1.StatefulSet:
		if !apiequality.Semantic.DeepEqual(t.Spec, cur.(*appsv1.StatefulSet).Spec) {
			t.Generation++
		}
	}
	s.put(res, key, cur, n)
	return n
}

// Remove deletes an object outright (kubelet finalising a pod, GC, test setup).
func (s *Server) Remove(res Res, ns, name string) bool {
	s.mu.Lock()
	defer s.mu.Unlock()
	key := ns + "/" + name
	cur := s.store[res][key]
	if cur == nil {
		return false
	}
	s.remove(res, key, cur)
	if res == Sets || res == BuiltinSet {
		s.gcq = append(s.gcq, gcTask{OwnerUID: acc(cur).GetUID(), Policy: metav1.DeletePropagationBackground})
	}
	return true
}

// MarkDeleting sets the deletionTimestamp (a user delete of an object that has finalizers).
func (s *Server) MarkDeleting(res Res, ns, name string) {
	s.Mutate(res, ns, name, func(o runtime.Object) {
		m := acc(o)
		if m.GetDeletionTimestamp() == nil {
			t := s.now()
			m.SetDeletionTimestamp(&t)
		}
	})
}

// RunGC performs the pending garbage-collection tasks (owner deletions).
// Returns the number of dependents touched.
func (s *Server) RunGC() int { return s.RunGCOn(Pods, Revisions, PVCs) }

// RunGCOn processes the pending tasks for the given kinds only and keeps the tasks pending
// when not every kind was processed (the real GC handles dependents in no particular order).
func (s *Server) RunGCOn(kinds ...Res) int {
	s.mu.Lock()
	defer s.mu.Unlock()
	n := 0
	for _, t := range s.gcq {
		for _, res := range kinds {
			for key, o := range s.store[res] {
				m := acc(o)
				idx := -1
				for i, r := range m.GetOwnerReferences() {
					if r.UID == t.OwnerUID {
						idx = i
					}
				}
				if idx < 0 {
					continue
				}
				n++
				if t.Policy == metav1.DeletePropagationOrphan {
					c := o.DeepCopyObject()
					refs := append([]metav1.OwnerReference(nil), m.GetOwnerReferences()...)
					refs = append(refs[:idx], refs[idx+1:]...)
					acc(c).SetOwnerReferences(refs)
					s.put(res, key, o, c)
				} else if len(m.GetOwnerReferences()) == 1 {
					s.deleteObj(res, key, o, nil)
				}
			}
		}
	}
	if len(kinds) >= 3 {
		s.gcq = nil
	}
	return n
}

// SweepDangling deletes dependents all of whose owners no longer exist, which is what the real
// garbage collector eventually does with objects that point at an absent owner.
func (s *Server) SweepDangling() int {
	s.mu.Lock()
	defer s.mu.Unlock()
	live := map[types.UID]bool{}
	for _, r := range []Res{Sets, BuiltinSet} {
		for _, o := range s.store[r] {
			live[acc(o).GetUID()] = true
		}
	}
	n := 0
	for _, res := range []Res{Pods, Revisions, PVCs} {
		for key, o := range s.store[res] {
			refs := acc(o).GetOwnerReferences()
			if len(refs) == 0 {
				continue
			}
			dangling := true
			for _, r := range refs {
				if live[r.UID] {
					dangling = false
				}
			}
			if dangling {
				s.deleteObj(res, key, o, nil)
				n++
			}
		}
	}
	return n
}

func (s *Server) PendingGC() int {
	s.mu.Lock()
	defer s.mu.Unlock()
	return len(s.gcq)
}
