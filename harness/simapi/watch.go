package simapi

import (
	"fmt"
	"sync"

	"k8s.io/apimachinery/pkg/runtime"
	"k8s.io/apimachinery/pkg/watch"
	ktesting "k8s.io/client-go/testing"
)

// watcher is an unbounded, never-blocking watch.Interface (the fake watchers of
// apimachinery panic when their 100-slot buffer is full).
type watcher struct {
	mu      sync.Mutex
	cond    *sync.Cond
	q       []watch.Event
	stopped bool
	ch      chan watch.Event
	ns      string
}

func newWatcher(ns string) *watcher {
	w := &watcher{ch: make(chan watch.Event), ns: ns}
	w.cond = sync.NewCond(&w.mu)
	go w.pump()
	return w
}

func (w *watcher) pump() {
	defer close(w.ch)
	for {
		w.mu.Lock()
		for len(w.q) == 0 && !w.stopped {
			w.cond.Wait()
		}
		if w.stopped {
			w.mu.Unlock()
			return
		}
		ev := w.q[0]
		w.q = w.q[1:]
		w.mu.Unlock()
		w.ch <- ev
	}
}

func (w *watcher) push(ev watch.Event) {
	w.mu.Lock()
	if !w.stopped {
		w.q = append(w.q, ev)
		w.cond.Signal()
	}
	w.mu.Unlock()
}

func (w *watcher) Stop() {
	w.mu.Lock()
	w.stopped = true
	w.cond.Signal()
	w.mu.Unlock()
	// drain so a pump blocked in send can finish
	go func() {
		for range w.ch {
		}
	}()
}

func (w *watcher) ResultChan() <-chan watch.Event { return w.ch }

type histEv struct {
	rv uint64
	ev watch.Event
}

func (s *Server) notify(res Res, t watch.EventType, o runtime.Object) {
	if s.KeepHistory {
		// events are replayed to watches that start from an older resourceVersion (list-then-watch)
		s.history[res] = append(s.history[res], histEv{s.rv, watch.Event{Type: t, Object: o}})
	}
	ws := s.watchers[res]
	if len(ws) == 0 {
		return
	}
	ns := acc(o).GetNamespace()
	for _, w := range ws {
		if w.ns == "" || w.ns == ns {
			w.push(watch.Event{Type: t, Object: o.DeepCopyObject()})
		}
	}
}

func (s *Server) reactWatch(a ktesting.Action, pc bool) (bool, watch.Interface, error) {
	res := resOf(a, pc)
	s.mu.Lock()
	defer s.mu.Unlock()
	w := newWatcher(a.GetNamespace())
	if wa, ok := a.(ktesting.WatchActionImpl); ok && wa.WatchRestrictions.ResourceVersion != "" {
		var from uint64
		fmt.Sscan(wa.WatchRestrictions.ResourceVersion, &from)
		for _, h := range s.history[res] {
			if h.rv > from && (w.ns == "" || w.ns == acc(h.ev.Object).GetNamespace()) {
				w.push(watch.Event{Type: h.ev.Type, Object: h.ev.Object.DeepCopyObject()})
			}
		}
	}
	s.watchers[res] = append(s.watchers[res], w)
	return true, w, nil
}

// StopWatchers ends every open watch (live engine shutdown).
func (s *Server) StopWatchers() {
	s.mu.Lock()
	defer s.mu.Unlock()
	for _, ws := range s.watchers {
		for _, w := range ws {
			w.Stop()
		}
	}
	s.watchers = map[Res][]*watcher{}
}
