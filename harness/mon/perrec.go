package mon

import (
	"encoding/json"
	"fmt"
	"sort"
	"strings"

	asv1 "github.com/pingcap/advanced-statefulset/client/apis/apps/v1"
	appsv1 "k8s.io/api/apps/v1"
	corev1 "k8s.io/api/core/v1"
	"k8s.io/apimachinery/pkg/runtime"

	"verif/harness/refspec"
	"verif/harness/simapi"
	"verif/harness/world"
)

type Violation struct {
	Prop   string
	Clause string
	Msg    string
}

func (v Violation) String() string { return fmt.Sprintf("%s[%s]: %s", v.Prop, v.Clause, v.Msg) }

type Stats map[string]int

func (s Stats) Inc(k string)        { s[k]++ }
func (s Stats) Add(k string, n int) { s[k] += n }

func viol(prop, clause, f string, a ...interface{}) Violation {
	return Violation{Prop: prop, Clause: clause, Msg: fmt.Sprintf(f, a...)}
}

func rawTemplate(t *corev1.PodTemplateSpec) runtime.RawExtension {
	b, _ := json.Marshal(map[string]interface{}{"spec": map[string]interface{}{"template": t}})
	return runtime.RawExtension{Raw: b}
}

// deleteClass classifies a pod delete against the snapshot:
// "a" outside desired set, "b" terminal phase, "c" outdated at/above partition, "" none.
func (v *View) deleteClass(p *corev1.Pod) string {
	_, ord, ok := refspec.ParsePodName(p.Name)
	if !ok {
		return ""
	}
	if !v.Desired[ord] {
		return "a"
	}
	if isTerminal(p) {
		return "b"
	}
	if v.Rolling && ord >= v.Partition && v.UpdateRev != "" && podRev(p) != v.UpdateRev {
		return "c"
	}
	return ""
}

// ---------------------------------------------------------------------------
// C03

func CheckC03(v *View, st Stats) []Violation {
	var out []Violation
	for i, c := range v.PodDeletes {
		st.Inc("deletes_checked")
		p := v.claimedByName(c.Name)
		// a pod this very reconcile created earlier is judged as created (Parallel sets go on to the
		// update walk after creating pods, e.g. on the legacy path without a rollingUpdate block)
		for _, cr := range v.PodCreates {
			if cr.Name == c.Name && cr.Seq < c.Seq {
				if np, ok := cr.Obj.(*corev1.Pod); ok {
					q := np.DeepCopy()
					q.Status.Phase = corev1.PodPending
					p = q
					st.Inc("deletes_of_pods_created_in_same_reconcile")
				}
			}
		}
		if p == nil || !v.Active() {
			out = append(out, viol("C03", "target-not-claimed", "delete of %s which is not a pod the set claims in the snapshot it reconciled", c.Name))
			continue
		}
		cl := v.deleteClass(p)
		st.Inc("delete_class_" + cl)
		switch cl {
		case "":
			out = append(out, viol("C03", "live-uptodate-deleted",
				"delete of %s: in the desired set %v, phase %s, revision %q (update revision %q, partition %d, strategy %s) — a live up-to-date pod",
				c.Name, refspec.SortedInts(v.Desired), p.Status.Phase, podRev(p), v.UpdateRev, v.Partition, v.Set.Spec.UpdateStrategy.Type))
		case "b":
			// must be replaced in the same reconcile unless something failed on the way
			if !c.OK() {
				break
			}
			failedAfter, recreated := false, false
			for _, d := range v.R.Calls {
				if d.Seq <= c.Seq {
					continue
				}
				if !d.OK() {
					failedAfter = true
				}
				if d.Res == simapi.Pods && d.Verb == "create" && d.Name == c.Name {
					recreated = true
				}
			}
			if !recreated && !failedAfter && !v.R.Crash && v.R.Panic == nil {
				out = append(out, viol("C03", "terminal-not-replaced", "failed/succeeded pod %s deleted but not re-created in the same reconcile", c.Name))
			}
			st.Inc("terminal_replacements_checked")
		}
		_ = i
	}
	return out
}

// ---------------------------------------------------------------------------
// C04

func CheckC04(v *View, st Stats) []Violation {
	var out []Violation
	seen := map[int]bool{}
	for _, c := range v.PodCreates {
		st.Inc("creates_checked")
		if !v.Active() {
			out = append(out, viol("C04", "create-while-inactive", "create of %s for a set that is absent/paused", c.Name))
			continue
		}
		parent, ord, ok := refspec.ParsePodName(c.Name)
		if !ok || parent != v.Set.Name {
			out = append(out, viol("C04", "bad-name", "create of pod %q for set %s", c.Name, v.Set.Name))
			continue
		}
		if v.Deleting {
			out = append(out, viol("C04", "create-for-deleting-set", "create of %s while the set carries a deletion timestamp", c.Name))
		}
		if !v.Desired[ord] {
			why := "beyond the range"
			if v.Slots[ord] {
				why = "a delete slot"
			}
			out = append(out, viol("C04", "outside-desired", "create of %s: ordinal %d is %s (replicas=%d slots=%v desired=%v)", c.Name, ord, why, v.Replicas, refspec.SortedInts(v.Slots), refspec.SortedInts(v.Desired)))
		}
		if p := v.ByOrd[ord]; p != nil {
			// allowed only if this reconcile has just removed that terminal pod
			removed := false
			for _, d := range v.PodDeletes {
				if d.Name == p.Name && d.Seq < c.Seq && d.OK() && isTerminal(p) {
					removed = true
				}
			}
			if !removed {
				out = append(out, viol("C04", "occupied", "create of %s although the snapshot holds pod %s (phase %s) at that ordinal", c.Name, p.Name, p.Status.Phase))
			} else {
				st.Inc("creates_replacing_terminal")
			}
		} else {
			st.Inc("creates_at_vacancy")
			// an adoptable orphan at that ordinal which was neither adopted nor found gone: the reconcile
			// should have failed before creating anything (the ordinal is occupied by a pod the set must claim)
			for _, o := range v.Adoptable {
				if o.Name != c.Name {
					continue
				}
				gone := false
				for _, d := range v.R.Calls {
					if d.Res == simapi.Pods && d.Verb == "patch" && d.Name == o.Name && d.Reason == "NotFound" {
						gone = true
					}
				}
				if !gone {
					out = append(out, viol("C04", "occupied-by-unadopted-orphan", "create of %s although the snapshot holds a matching orphan of that name which this reconcile neither adopted nor found gone", c.Name))
				}
			}
		}
		if seen[ord] {
			out = append(out, viol("C04", "double-create", "two creates for ordinal %d in one reconcile", ord))
		}
		seen[ord] = true
	}
	return out
}

// ---------------------------------------------------------------------------
// C05

func (v *View) desiredHealthy(requireNotTerminating bool, below int) (bool, string) {
	for _, j := range refspec.SortedInts(v.Desired) {
		if below >= 0 && j >= below {
			continue
		}
		p := v.ByOrd[j]
		if p == nil {
			return false, fmt.Sprintf("desired ordinal %d has no pod", j)
		}
		if !world.IsReady(p) {
			return false, fmt.Sprintf("pod %s is not Running+Ready (phase %s)", p.Name, p.Status.Phase)
		}
		if requireNotTerminating && p.DeletionTimestamp != nil {
			return false, fmt.Sprintf("pod %s is terminating", p.Name)
		}
	}
	return true, ""
}

func CheckC05(v *View, st Stats) []Violation {
	var out []Violation
	if !v.Active() || !v.Monotonic {
		return nil
	}
	touched := map[int]bool{}
	for _, c := range append(append([]*simapi.Call{}, v.PodCreates...), v.PodDeletes...) {
		_, ord, _ := refspec.ParsePodName(c.Name)
		touched[ord] = true
	}
	if len(touched) > 0 {
		st.Inc("ordered_reconciles_with_action")
	}
	if len(touched) > 1 {
		out = append(out, viol("C05", "more-than-one-ordinal", "OrderedReady reconcile created/deleted pods at ordinals %v", refspec.SortedInts(touched)))
	}
	for _, c := range v.PodCreates {
		_, ord, ok := refspec.ParsePodName(c.Name)
		if !ok {
			continue
		}
		st.Inc("ordered_creates_checked")
		if ok, why := v.desiredHealthy(true, ord); !ok {
			out = append(out, viol("C05", "create-with-unhealthy-predecessor", "create of %s although %s", c.Name, why))
		}
	}
	condemned := v.Condemned()
	for _, c := range v.PodDeletes {
		p := v.claimedByName(c.Name)
		if p == nil {
			continue
		}
		switch v.deleteClass(p) {
		case "a":
			st.Inc("ordered_scalein_checked")
			if ok, why := v.desiredHealthy(false, -1); !ok {
				out = append(out, viol("C05", "scale-in-with-unhealthy-desired", "scale-in delete of %s although %s", c.Name, why))
			}
			if top := condemned[len(condemned)-1]; top.Name != p.Name {
				out = append(out, viol("C05", "scale-in-not-from-top", "scale-in delete of %s although %s with a higher ordinal is still present", c.Name, top.Name))
			}
		case "c":
			st.Inc("ordered_update_deletes_checked")
			if len(condemned) > 0 {
				out = append(out, viol("C05", "update-before-scale-in", "update delete of %s while %s is still waiting to be scaled in", c.Name, condemned[0].Name))
			}
			if ok, why := v.desiredHealthy(true, -1); !ok {
				out = append(out, viol("C05", "update-with-unhealthy-desired", "update delete of %s although %s", c.Name, why))
			}
		}
	}
	return out
}

// ---------------------------------------------------------------------------
// C07

func revByName(revs []*appsv1.ControllerRevision, name string) *appsv1.ControllerRevision {
	for _, r := range revs {
		if r.Name == name {
			return r
		}
	}
	return nil
}

func CheckC07(v *View, st Stats) []Violation {
	var out []Violation
	if !v.Active() {
		return nil
	}
	nUpd := 0
	for _, c := range v.PodDeletes {
		p := v.claimedByName(c.Name)
		if p == nil {
			continue
		}
		_, ord, _ := refspec.ParsePodName(p.Name)
		// an update-class delete = delete of a live pod of the desired set (the only legal reason left is its revision)
		if !v.Desired[ord] || isTerminal(p) {
			continue
		}
		nUpd++
		st.Inc("update_deletes_checked")
		if !v.Rolling {
			out = append(out, viol("C07", "ondelete-restart", "strategy %s but live desired pod %s was deleted (revision %q, update revision %q)", v.Set.Spec.UpdateStrategy.Type, c.Name, podRev(p), v.UpdateRev))
			continue
		}
		if ord < v.Partition {
			out = append(out, viol("C07", "below-partition", "pod %s (ordinal %d) deleted for update below partition %d", c.Name, ord, v.Partition))
		}
		if podRev(p) == v.UpdateRev {
			out = append(out, viol("C07", "uptodate-deleted", "pod %s already at update revision %s deleted", c.Name, v.UpdateRev))
		}
		for _, j := range refspec.SortedInts(v.Desired) {
			if j <= ord {
				continue
			}
			q := v.ByOrd[j]
			switch {
			case q == nil:
				out = append(out, viol("C07", "higher-missing", "pod %s deleted for update while desired ordinal %d has no pod", c.Name, j))
			case podRev(q) != v.UpdateRev:
				out = append(out, viol("C07", "higher-not-updated", "pod %s deleted for update while higher pod %s is at %q not %q", c.Name, q.Name, podRev(q), v.UpdateRev))
			case !world.IsReady(q):
				out = append(out, viol("C07", "higher-not-ready", "pod %s deleted for update while higher pod %s is not Running+Ready", c.Name, q.Name))
			}
		}
	}
	if nUpd > 1 {
		out = append(out, viol("C07", "more-than-one-update-delete", "%d pods deleted for update in one reconcile", nUpd))
	}
	for _, c := range v.PodCreates {
		if !c.OK() && c.Obj == nil {
			continue
		}
		pod, ok := c.Obj.(*corev1.Pod)
		_, ord, pok := refspec.ParsePodName(c.Name)
		if !ok || !pok {
			continue
		}
		st.Inc("created_pod_revisions_checked")
		rev := podRev(pod)
		want := ""
		if v.Rolling && v.HasBlock {
			if ord < v.Partition {
				want = v.CurrentRev
				st.Inc("created_below_partition")
			} else {
				want = v.UpdateRev
				st.Inc("created_at_or_above_partition")
			}
			if want != "" && rev != want {
				out = append(out, viol("C07", "created-at-wrong-revision", "pod %s (ordinal %d, partition %d) created at revision %q, expected %q (current %q update %q)", c.Name, ord, v.Partition, rev, want, v.CurrentRev, v.UpdateRev))
			}
		} else if rev != v.CurrentRev && rev != v.UpdateRev {
			out = append(out, viol("C07", "created-at-unknown-revision", "pod %s created at revision %q which is neither current %q nor update %q", c.Name, rev, v.CurrentRev, v.UpdateRev))
		}
		// template content must be that of the revision named by the label
		if r := revByName(v.RevsAfter, rev); r != nil {
			if t := world.DecodeRevisionTemplate(r); t != nil {
				if !podBuiltFrom(pod, t) {
					out = append(out, viol("C07", "created-content-mismatch", "pod %s labelled %s but its containers/annotations differ from that revision's template", c.Name, rev))
				}
			}
		}
	}
	return out
}

// PodBuiltFrom: the pod runs the containers and carries exactly the annotations of the template.
func PodBuiltFrom(p *corev1.Pod, t *corev1.PodTemplateSpec) bool { return podBuiltFrom(p, t) }

func podBuiltFrom(p *corev1.Pod, t *corev1.PodTemplateSpec) bool {
	a, _ := json.Marshal(p.Spec.Containers)
	b, _ := json.Marshal(t.Spec.Containers)
	if string(a) != string(b) {
		return false
	}
	for k, val := range t.Annotations {
		if p.Annotations[k] != val {
			return false
		}
	}
	for k := range p.Annotations {
		if _, ok := t.Annotations[k]; !ok {
			return false
		}
	}
	return true
}

// ---------------------------------------------------------------------------
// C14

func CheckC14(v *View, st Stats) []Violation {
	var out []Violation
	if !v.Active() || v.Monotonic || v.Deleting {
		return nil
	}
	// "absent API errors": a reconcile in which no API call failed is held to the rule even if it
	// returned an error of its own making
	if v.AnyErr || v.R.Crash || v.R.Panic != nil {
		st.Inc("parallel_reconciles_skipped_api_error")
		return nil
	}
	// a set that the API already shows as gone, re-created or being deleted is not to be scaled
	// (the uncached confirmation before an adoption reveals it and stops the reconcile)
	if api, _ := v.R.Before.Get(simapi.Sets, v.Set.Namespace, v.Set.Name).(*asv1.StatefulSet); api == nil || api.UID != v.Set.UID || api.DeletionTimestamp != nil {
		st.Inc("parallel_reconciles_skipped_set_gone_in_api")
		return nil
	}
	if v.R.Err != nil {
		st.Inc("parallel_reconciles_failed_without_api_error")
	}
	st.Inc("parallel_reconciles_checked")
	created := map[int]bool{}
	for _, c := range v.PodCreates {
		_, o, _ := refspec.ParsePodName(c.Name)
		created[o] = true
	}
	deleted := map[string]bool{}
	for _, c := range v.PodDeletes {
		deleted[c.Name] = true
	}
	k, m := 0, 0
	for _, o := range refspec.SortedInts(v.Desired) {
		p := v.ByOrd[o]
		if p == nil || isTerminal(p) {
			k++
			if !created[o] {
				what := "vacant"
				if p != nil {
					what = "held by " + string(p.Status.Phase) + " pod"
				}
				out = append(out, viol("C14", "burst-create-missing", "Parallel: desired ordinal %d is %s but no create was issued in this reconcile (creates at %v)", o, what, refspec.SortedInts(created)))
			}
		}
	}
	for _, p := range v.Condemned() {
		if p.DeletionTimestamp != nil {
			continue
		}
		m++
		if !deleted[p.Name] {
			out = append(out, viol("C14", "burst-delete-missing", "Parallel: live pod %s is outside the desired set but was not deleted in this reconcile", p.Name))
		}
	}
	if k+m > 0 {
		st.Inc("parallel_reconciles_with_scaling")
		if k+m > 1 {
			st.Inc("parallel_reconciles_with_burst>1")
		}
	}
	nUpd := 0
	for _, c := range v.PodDeletes {
		if p := v.claimedByName(c.Name); p != nil && v.deleteClass(p) == "c" {
			nUpd++
		}
	}
	if nUpd > 1 {
		out = append(out, viol("C14", "parallel-update-burst", "Parallel: %d pods taken down for update in one reconcile", nUpd))
	}
	// ... and one at a time across reconciles too: no pod is taken down for update while another pod of the
	// desired set is still on its way down (terminating) or not back up yet above it
	for _, c := range v.PodDeletes {
		p := v.claimedByName(c.Name)
		if p == nil || v.deleteClass(p) != "c" {
			continue
		}
		_, ord, _ := refspec.ParsePodName(p.Name)
		for _, j := range refspec.SortedInts(v.Desired) {
			q := v.ByOrd[j]
			if j > ord && q != nil && q.DeletionTimestamp != nil {
				out = append(out, viol("C14", "parallel-update-while-other-pod-down", "Parallel: pod %s taken down for update while %s is still terminating", p.Name, q.Name))
			}
		}
		st.Inc("parallel_update_deletes_checked")
	}
	return out
}

// ---------------------------------------------------------------------------
// C12 (per status write)

func CheckC12(v *View, st Stats) []Violation {
	var out []Violation
	for _, c := range v.R.Calls {
		if c.Res != simapi.Sets || c.Verb != "update" || c.Sub != "status" {
			continue
		}
		w, ok := c.Obj.(*asv1.StatefulSet)
		if !ok {
			continue
		}
		st.Inc("status_writes_checked")
		s := w.Status
		for name, val := range map[string]int32{"readyReplicas": s.ReadyReplicas, "currentReplicas": s.CurrentReplicas, "updatedReplicas": s.UpdatedReplicas} {
			if val < 0 || val > s.Replicas {
				out = append(out, viol("C12", "bounds", "status write with %s=%d outside [0, replicas=%d]", name, val, s.Replicas))
			}
		}
		if s.Replicas < 0 {
			out = append(out, viol("C12", "bounds", "status write with replicas=%d", s.Replicas))
		}
		if !c.OK() || !c.Applied {
			st.Inc("status_writes_rejected")
			continue
		}
		if v.Set != nil && s.ObservedGeneration != v.Set.Generation {
			out = append(out, viol("C12", "observed-generation", "status.observedGeneration=%d but the reconciled set has generation %d", s.ObservedGeneration, v.Set.Generation))
		}
		if v.Active() {
			// the written counters must be a census of the snapshot the reconcile acted on
			ready, creates, terminalDeletes := 0, 0, 0
			seenDel := map[string]bool{}
			for _, p := range v.Claimed {
				if world.IsReady(p) {
					ready++
				}
			}
			for _, d := range v.R.Calls {
				if d.Seq > c.Seq || !d.OK() || d.Res != simapi.Pods {
					continue
				}
				if d.Verb == "create" {
					creates++
				}
				if d.Verb == "delete" && !seenDel[d.Name] {
					seenDel[d.Name] = true // only the first delete of a name can be the replacement of the terminal pod
					if p := v.claimedByName(d.Name); p != nil && isTerminal(p) && v.deleteClass(p) == "b" {
						terminalDeletes++
					}
				}
			}
			st.Inc("status_census_checks")
			if int(s.ReadyReplicas) != ready {
				out = append(out, viol("C12", "ready-census", "status.readyReplicas=%d written but the reconcile saw %d Running+Ready pods", s.ReadyReplicas, ready))
			}
			if want := len(v.Claimed) + creates - terminalDeletes; int(s.Replicas) != want {
				out = append(out, viol("C12", "replicas-census", "status.replicas=%d written but the reconcile saw %d pods, created %d and replaced %d", s.Replicas, len(v.Claimed), creates, terminalDeletes))
			}
			// currentReplicas / updatedReplicas: the pods that are left after this reconcile's own successful
			// creates and deletes (created, not terminating), counted by revision label
			counted := map[string]string{} // pod name -> revision
			for _, p := range v.Claimed {
				if p.Status.Phase != "" && p.DeletionTimestamp == nil {
					counted[p.Name] = podRev(p)
				}
			}
			for _, d := range v.R.Calls {
				if d.Seq > c.Seq || !d.OK() || d.Res != simapi.Pods {
					continue
				}
				switch d.Verb {
				case "delete":
					delete(counted, d.Name)
				case "create":
					if np, ok := d.Obj.(*corev1.Pod); ok {
						counted[d.Name] = podRev(np)
					}
				}
			}
			nCur, nUpd := 0, 0
			for _, rev := range counted {
				if rev == s.CurrentRevision {
					nCur++
				}
				if rev == s.UpdateRevision {
					nUpd++
				}
			}
			if int(s.UpdatedReplicas) != nUpd {
				out = append(out, viol("C12", "updated-census", "status.updatedReplicas=%d written but %d pods at update revision %s are left after this reconcile's actions", s.UpdatedReplicas, nUpd, s.UpdateRevision))
			}
			if int(s.CurrentReplicas) != nCur {
				out = append(out, viol("C12", "current-census", "status.currentReplicas=%d written but %d pods at current revision %s are left after this reconcile's actions", s.CurrentReplicas, nCur, s.CurrentRevision))
			}
		}
		before, _ := c.Before.(*asv1.StatefulSet)
		if before == nil || v.Set == nil {
			continue
		}
		// was this write issued by the conflict-retry path onto an object re-read from the lister?
		// (its content was computed from the stale copy the reconcile started with)
		retryTag := ""
		for _, d := range v.R.Calls {
			if d.Seq < c.Seq && d.Res == simapi.Sets && d.Sub == "status" && d.Reason == "Conflict" && w.ResourceVersion != v.Set.ResourceVersion {
				retryTag = " [written by the status updater's conflict-retry onto a refreshed object, computed from the stale status the reconcile started with]"
			}
		}
		if s.ObservedGeneration < before.Status.ObservedGeneration {
			out = append(out, viol("C12", "observed-generation-regressed", "status.observedGeneration %d -> %d%s", before.Status.ObservedGeneration, s.ObservedGeneration, retryTag))
		}
		old := before.Status.CurrentRevision
		if old != "" && old != s.CurrentRevision && revByName(OwnRevisions(v.RevsBefore, v.Set), old) != nil {
			st.Inc("current_revision_transitions_checked")
			if retryTag != "" {
				st.Inc("current_revision_transitions_by_conflict_retry")
			}
			if s.CurrentRevision != s.UpdateRevision {
				out = append(out, viol("C12", "current-revision-jump", "currentRevision %s -> %s which is not updateRevision %s%s", old, s.CurrentRevision, s.UpdateRevision, retryTag))
			}
			for _, p := range v.Claimed {
				if podRev(p) != s.UpdateRevision || !world.IsReady(p) {
					out = append(out, viol("C12", "premature-completion", "currentRevision %s -> %s although pod %s is at %q ready=%v%s", old, s.CurrentRevision, p.Name, podRev(p), world.IsReady(p), retryTag))
					break
				}
			}
		}
	}
	return out
}

// ---------------------------------------------------------------------------
// C13

func revLess(a, b *appsv1.ControllerRevision) bool {
	if a.Revision != b.Revision {
		return a.Revision < b.Revision
	}
	if !a.CreationTimestamp.Equal(&b.CreationTimestamp) {
		return a.CreationTimestamp.Before(&b.CreationTimestamp)
	}
	return a.Name < b.Name
}

func CheckC13(v *View, st Stats) []Violation {
	var out []Violation
	var dels []*simapi.Call
	for _, c := range v.R.Calls {
		if c.Res == simapi.Revisions && c.Verb == "delete" {
			dels = append(dels, c)
		}
	}
	if v.Set == nil || v.SelErr != nil {
		for _, c := range dels {
			out = append(out, viol("C13", "delete-without-set", "revision %s deleted with no set to reconcile", c.Name))
		}
		return out
	}
	limit := 0
	if v.Set.Spec.RevisionHistoryLimit != nil {
		limit = int(*v.Set.Spec.RevisionHistoryLimit)
	}
	live := map[string]bool{}
	for _, p := range v.Claimed {
		live[podRev(p)] = true
	}
	// current / update revision of this reconcile: from the status the reconcile computed
	// (the status write if any, else the cached status, which a write-less reconcile left consistent)
	cur, upd := v.Set.Status.CurrentRevision, v.UpdateRev
	for _, c := range v.R.Calls {
		if c.Res == simapi.Sets && c.Sub == "status" && c.Verb == "update" {
			if w, ok := c.Obj.(*asv1.StatefulSet); ok {
				cur, upd = w.Status.CurrentRevision, w.Status.UpdateRevision
			}
		}
	}
	// live = what this reconcile started with (cached status / template-mirroring revision)
	// united with what it wrote: a rollout completing in this very reconcile still
	// treats the outgoing current revision as live (it is trimmed by the next one).
	live[cur], live[upd] = true, true
	live[v.Set.Status.CurrentRevision] = true
	if v.UpdateRev != "" {
		live[v.UpdateRev] = true
	}
	if v.CurrentRev != "" {
		live[v.CurrentRev] = true
	}
	// unused revisions of the set before truncation started (state after revision bookkeeping,
	// i.e. everything listed that still exists or was deleted by this reconcile)
	byName := map[string]*appsv1.ControllerRevision{}
	for _, r := range v.RevsAfter {
		byName[r.Name] = r
	}
	for _, c := range dels {
		if r, ok := c.Before.(*appsv1.ControllerRevision); ok && r != nil {
			byName[r.Name] = r
		}
	}
	var unused []*appsv1.ControllerRevision
	for _, r := range byName {
		c := hasCtrl(r)
		mine := c != nil && c.UID == v.Set.UID
		orphanOfDeleting := c == nil && v.Deleting
		if (mine || orphanOfDeleting) && !live[r.Name] {
			unused = append(unused, r)
		}
	}
	sort.Slice(unused, func(i, j int) bool { return revLess(unused[i], unused[j]) })
	seen := map[string]bool{}
	nOK := 0
	for _, c := range dels {
		st.Inc("history_deletes_checked")
		r, _ := c.Before.(*appsv1.ControllerRevision)
		if seen[c.Name] {
			out = append(out, viol("C13", "deleted-twice", "revision %s deleted twice in one reconcile (counted twice)", c.Name))
			continue
		}
		seen[c.Name] = true
		if r == nil {
			if c.Injected == "" {
				out = append(out, viol("C13", "delete-of-absent", "delete of revision %s which does not exist", c.Name))
			}
			continue
		}
		if ct := hasCtrl(r); ct != nil && ct.UID != v.Set.UID {
			out = append(out, viol("C13", "foreign-deleted", "revision %s controlled by %s/%s deleted by set uid %s", c.Name, ct.Kind, ct.UID, v.Set.UID))
			continue
		}
		if live[c.Name] {
			out = append(out, viol("C13", "live-deleted", "revision %s deleted although it is current/update or named by a pod (current=%s update=%s)", c.Name, cur, upd))
			continue
		}
		if c.OK() {
			nOK++
		}
	}
	if len(dels) > 0 {
		if len(unused) <= limit {
			out = append(out, viol("C13", "trimmed-within-limit", "%d revisions deleted although only %d unused revisions exist (limit %d)", len(dels), len(unused), limit))
		} else {
			// deleted ones must be a prefix (oldest first) of the unused list, at most unused-limit of them
			want := unused[:len(unused)-limit]
			for i, c := range dels {
				if i >= len(want) {
					out = append(out, viol("C13", "trimmed-too-many", "delete #%d of %s exceeds unused(%d)-limit(%d)", i+1, c.Name, len(unused), limit))
					break
				}
				if want[i].Name != c.Name && seen[c.Name] && c.Before != nil {
					// same Revision+timestamp ties are order-insensitive
					if !(want[i].Revision == c.Before.(*appsv1.ControllerRevision).Revision) {
						out = append(out, viol("C13", "not-oldest-first", "delete #%d is %s but the oldest unused is %s", i+1, c.Name, want[i].Name))
						break
					}
				}
			}
		}
	}
	if v.R.Err == nil && !v.R.Crash && v.R.Panic == nil && v.Active() {
		st.Inc("history_postconditions_checked")
		remaining := 0
		for _, r := range v.RevsAfter {
			if c := hasCtrl(r); c != nil && c.UID == v.Set.UID && !live[r.Name] {
				remaining++
			}
		}
		if remaining > limit {
			out = append(out, viol("C13", "limit-exceeded", "%d unused revisions remain after a successful reconcile, limit %d", remaining, limit))
		}
	}
	return out
}

// ---------------------------------------------------------------------------
// C11

func CheckC11(v *View, st Stats) []Violation {
	var out []Violation
	if v.Set == nil {
		return nil
	}
	// a set that carries a deletion timestamp in the API adopts nothing, even when the cache is stale:
	// every adoption must be preceded by an uncached read, and deletion timestamps never go away
	if api, _ := v.R.Before.Get(simapi.Sets, v.Set.Namespace, v.Set.Name).(*asv1.StatefulSet); api != nil && api.UID == v.Set.UID && api.DeletionTimestamp != nil {
		st.Inc("reconciles_of_sets_deleting_in_api")
		for _, c := range v.R.Writes() {
			if c.Verb == "patch" && c.OK() && strings.Contains(string(c.Patch), `"controller":true`) && strings.Contains(string(c.Patch), string(v.Set.UID)) {
				out = append(out, viol("C11", "adoption-by-deleting-set", "the set carries a deletion timestamp in the API (stale cache: %v) but adopted: %s", !v.Deleting, c))
			}
		}
	}
	if v.Paused {
		st.Inc("paused_reconciles_checked")
		for _, c := range v.R.Writes() {
			out = append(out, viol("C11", "write-while-paused", "paused set but the reconcile issued %s", c.String()))
		}
		return out
	}
	if v.Deleting {
		st.Inc("deleting_reconciles_checked")
		for _, c := range v.R.Writes() {
			switch {
			case c.Res == simapi.Sets && c.Sub == "status":
			case c.Res == simapi.Revisions:
				before, _ := c.Before.(*appsv1.ControllerRevision)
				after, _ := c.After.(*appsv1.ControllerRevision)
				if c.Verb == "create" {
					continue // keeping its own revision records
				}
				if before != nil {
					ct := hasCtrl(before)
					if ct == nil || ct.UID != v.Set.UID {
						out = append(out, viol("C11", "deleting-set-touches-unowned-revision", "set being deleted issued %s on a revision it does not own", c.String()))
						continue
					}
				}
				if before != nil && after != nil && c.OK() {
					if !sameOwners(before.OwnerReferences, after.OwnerReferences) || fmt.Sprint(before.Labels) != fmt.Sprint(after.Labels) {
						out = append(out, viol("C11", "deleting-set-changes-revision-owner-or-labels", "set being deleted changed owner/labels of revision: %s", c.String()))
					}
				}
			default:
				out = append(out, viol("C11", "write-while-deleting", "set being deleted but the reconcile issued %s", c.String()))
			}
		}
	}
	return out
}

func sameOwners(a, b interface{}) bool {
	x, _ := json.Marshal(a)
	y, _ := json.Marshal(b)
	return string(x) == string(y)
}

var _ = strings.Contains

// V builds a violation (for scenario-level oracles living outside this package).
func V(prop, clause, f string, a ...interface{}) Violation { return viol(prop, clause, f, a...) }
