package mon

import (
	"bytes"
	"strconv"

	asv1 "github.com/pingcap/advanced-statefulset/client/apis/apps/v1"
	"github.com/pingcap/advanced-statefulset/pkg/controller/statefulset"
	k8s "github.com/pingcap/advanced-statefulset/pkg/third_party/k8s"
	appsv1 "k8s.io/api/apps/v1"

	"verif/harness/simapi"
	"verif/harness/world"
)

// CheckC08: the update revision mirrors the template; unchanged templates add
// no revision; rollbacks reuse and renumber; collisions never overwrite.
func CheckC08(v *View, st Stats) []Violation {
	var out []Violation
	if v.Set == nil || v.SelErr != nil {
		return nil
	}
	s := v.Set
	// revision bookkeeping calls of this reconcile
	var creates, renumbers []*simapi.Call
	for _, c := range v.R.Calls {
		if c.Res != simapi.Revisions {
			continue
		}
		if c.Verb == "create" {
			creates = append(creates, c)
		}
		if c.Verb == "update" {
			b, _ := c.Before.(*appsv1.ControllerRevision)
			o, _ := c.Obj.(*appsv1.ControllerRevision)
			if b != nil && o != nil && b.Revision != o.Revision {
				renumbers = append(renumbers, c)
			}
			if b != nil && o != nil && !bytes.Equal(b.Data.Raw, o.Data.Raw) {
				out = append(out, viol("C08", "revision-data-overwritten", "%s attempts to change the recorded data of an existing revision", c))
			}
		}
	}
	// mirrors of the cached template among the set's revisions at the start
	var mirrorsBefore []*appsv1.ControllerRevision
	var maxBefore *appsv1.ControllerRevision
	for _, rev := range v.RevsBefore {
		if t := world.DecodeRevisionTemplate(rev); t != nil && TemplateEqual(t, &s.Spec.Template) {
			mirrorsBefore = append(mirrorsBefore, rev)
		}
		if maxBefore == nil || revLess(maxBefore, rev) {
			maxBefore = rev
		}
	}
	for _, c := range creates {
		st.Inc("revision_creates_checked")
		o, _ := c.Obj.(*appsv1.ControllerRevision)
		if o == nil {
			continue
		}
		if t := world.DecodeRevisionTemplate(o); t == nil || !TemplateEqual(t, &s.Spec.Template) {
			out = append(out, viol("C08", "created-revision-does-not-mirror-template", "%s records a template different from the set's", c))
		}
		for _, m := range mirrorsBefore {
			// revisions are equal when their recorded data is byte-equal; the hash labels only matter in
			// the (practically unreachable) case that both parse as int32 and differ, as upstream has it
			hm, e1 := strconv.ParseInt(m.Labels[k8s.ControllerRevisionHashLabel], 10, 32)
			ho, e2 := strconv.ParseInt(o.Labels[k8s.ControllerRevisionHashLabel], 10, 32)
			if bytes.Equal(m.Data.Raw, o.Data.Raw) && !(e1 == nil && e2 == nil && hm != ho) {
				out = append(out, viol("C08", "revision-added-for-known-template", "%s although revision %s already records exactly this template", c, m.Name))
			}
		}
		// a create that met an existing object of that name must have left it untouched
		if c.Before != nil {
			st.Inc("name_collisions_seen")
			b := c.Before.(*appsv1.ControllerRevision)
			a, _ := c.After.(*appsv1.ControllerRevision)
			if a == nil || !bytes.Equal(a.Data.Raw, b.Data.Raw) || a.Revision != b.Revision || a.UID != b.UID {
				out = append(out, viol("C08", "collision-overwrote-revision", "%s hit an existing revision of that name and changed it", c))
			}
		}
	}
	for _, c := range renumbers {
		st.Inc("revision_renumbers_checked")
		b := c.Before.(*appsv1.ControllerRevision)
		if t := world.DecodeRevisionTemplate(b); t == nil || !TemplateEqual(t, &s.Spec.Template) {
			out = append(out, viol("C08", "renumbered-wrong-revision", "%s renumbers a revision that does not record the set's template", c))
		}
		if len(mirrorsBefore) > 0 && maxBefore != nil && TemplateEqualRev(maxBefore, s) {
			out = append(out, viol("C08", "renumbered-without-rollback", "%s although the newest revision %s already records the template", c, maxBefore.Name))
		}
		if c.OK() {
			a, _ := c.After.(*appsv1.ControllerRevision)
			for _, other := range v.RevsAfter {
				if a != nil && other.Name != a.Name && other.Revision >= a.Revision {
					out = append(out, viol("C08", "rollback-not-numbered-highest", "revision %s re-used at number %d but %s has %d", a.Name, a.Revision, other.Name, other.Revision))
				}
			}
		}
	}
	if len(mirrorsBefore) > 0 && len(creates) == 0 && len(renumbers) == 0 {
		st.Inc("unchanged_template_reconciles")
	}
	if v.R.Err != nil || v.R.Crash || v.R.Panic != nil || v.Paused {
		return out
	}
	// successful reconcile: the update revision it believes in must mirror the template
	upd := s.Status.UpdateRevision
	for _, c := range v.R.Calls {
		if c.Res == simapi.Sets && c.Sub == "status" && c.Verb == "update" && c.OK() {
			if w, ok := c.Obj.(*asv1.StatefulSet); ok {
				upd = w.Status.UpdateRevision
			}
		}
	}
	st.Inc("successful_reconciles_checked")
	rev := revByName(world.RevisionsOf(v.R.After, s.Namespace), upd)
	if rev == nil {
		out = append(out, viol("C08", "update-revision-dangling", "status.updateRevision=%q names no stored ControllerRevision", upd))
		return out
	}
	if t := world.DecodeRevisionTemplate(rev); t == nil || !TemplateEqual(t, &s.Spec.Template) {
		out = append(out, viol("C08", "update-revision-does-not-mirror-template", "status.updateRevision=%s records a template that differs from the set's current template", upd))
	}
	// ... and be the newest of the set's revisions: a re-used earlier revision is renumbered above all others
	// (judged only when the reconcile saw the revisions the API holds, and nobody else changed them meanwhile)
	// Only revisions this set controls take part: a create that ran into a same-named revision of an earlier
	// incarnation or of the built-in set uses that object as it is (upstream does the same), and such objects
	// are not renumbered.
	own := func(x *appsv1.ControllerRevision) bool {
		c := world.ControllerOf(x)
		return c != nil && c.UID == s.UID
	}
	if v.R.RevCacheFresh && !v.Deleting && own(rev) {
		var newest *appsv1.ControllerRevision
		for _, x := range v.RevsAfter {
			if own(x) && (newest == nil || revLess(newest, x)) {
				newest = x
			}
		}
		st.Inc("newest_revision_postconditions_checked")
		if newest != nil && newest.Name != rev.Name && !bytes.Equal(newest.Data.Raw, rev.Data.Raw) {
			out = append(out, viol("C08", "update-revision-not-the-newest", "after a successful reconcile the update revision %s (number %d) is not the newest of the set's revisions: %s has number %d", rev.Name, rev.Revision, newest.Name, newest.Revision))
		}
	}
	restored, err := statefulset.ApplyRevision(s, rev)
	if err != nil {
		out = append(out, viol("C08", "apply-revision-failed", "ApplyRevision(set, %s): %v", upd, err))
	} else if !TemplateEqual(&restored.Spec.Template, &s.Spec.Template) {
		out = append(out, viol("C08", "apply-revision-differs", "ApplyRevision(set, %s) does not reproduce the set's template", upd))
	}
	return out
}

func TemplateEqualRev(rev *appsv1.ControllerRevision, s *asv1.StatefulSet) bool {
	t := world.DecodeRevisionTemplate(rev)
	return t != nil && TemplateEqual(t, &s.Spec.Template)
}
