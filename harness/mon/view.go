// Package mon holds the oracles. Every per-reconcile monitor is a pure function
// of a world.Record (what the reconcile saw, what it called, what came back)
// and of refspec; none of them reads the wall clock.
package mon

import (
	"fmt"
	"sort"
	"strings"

	asv1 "github.com/pingcap/advanced-statefulset/client/apis/apps/v1"
	"github.com/pingcap/advanced-statefulset/client/apis/apps/v1/helper"
	appsv1 "k8s.io/api/apps/v1"
	corev1 "k8s.io/api/core/v1"
	apiequality "k8s.io/apimachinery/pkg/api/equality"
	metav1 "k8s.io/apimachinery/pkg/apis/meta/v1"
	"k8s.io/apimachinery/pkg/labels"

	"verif/harness/refspec"
	"verif/harness/simapi"
	"verif/harness/world"
)

// View is the set of facts about one reconcile that several monitors share.
// It is derived from the cached snapshot and the call log only.
type View struct {
	R        *world.Record
	Set      *asv1.StatefulSet // cached set (nil: nothing to reconcile)
	Paused   bool
	Deleting bool
	Selector labels.Selector
	SelErr   error
	// Claimed are the cached pods the set legitimately treats as its own in this reconcile:
	// owned by its UID, matching, named S-<n>; plus orphans whose adoption patch succeeded.
	Claimed   []*corev1.Pod
	ByOrd     map[int]*corev1.Pod // claimed pods with a parseable ordinal
	Adoptable []*corev1.Pod       // orphans eligible for adoption in this reconcile
	Slots     map[int]bool
	Replicas  int
	Desired   map[int]bool
	// Revisions the set's listing returns (selector or marker), de-duplicated, after the reconcile
	RevsAfter  []*appsv1.ControllerRevision
	RevsBefore []*appsv1.ControllerRevision
	UpdateRev  string // name of the revision that mirrors the cached template ("" if none)
	CurrentRev string
	Partition  int
	Rolling    bool
	HasBlock   bool
	Monotonic  bool

	PodCreates []*simapi.Call
	PodDeletes []*simapi.Call
	AnyErr     bool // some API call of the reconcile returned an error
}

func hasCtrl(m metav1.Object) *metav1.OwnerReference { return world.ControllerOf(m) }

// ListedRevisions returns the revisions a set may consider its history: found
// by selector or by upgrade marker, each once, and not controlled by another owner.
func ListedRevisions(snap simapi.Snapshot, set *asv1.StatefulSet, sel labels.Selector) []*appsv1.ControllerRevision {
	var out []*appsv1.ControllerRevision
	for _, rev := range world.RevisionsOf(snap, set.Namespace) {
		if c := hasCtrl(rev); c != nil && c.UID != set.UID {
			continue // controlled by somebody else: never the set's to use (C10)
		}
		if sel.Matches(labels.Set(rev.Labels)) || rev.Labels[helper.UpgradeToAdvancedStatefulSetAnn] == set.Name {
			out = append(out, rev)
		}
	}
	return out
}

// OwnRevisions filters to revisions that are the set's to manage: controlled by its UID.
func OwnRevisions(revs []*appsv1.ControllerRevision, set *asv1.StatefulSet) []*appsv1.ControllerRevision {
	var out []*appsv1.ControllerRevision
	for _, r := range revs {
		if c := hasCtrl(r); c != nil && c.UID == set.UID {
			out = append(out, r)
		}
	}
	return out
}

func normTemplate(t *corev1.PodTemplateSpec) *corev1.PodTemplateSpec {
	// JSON round trip so that nil/empty collections compare equal
	return world.DecodeRevisionTemplate(&appsv1.ControllerRevision{Data: rawTemplate(t)})
}

// TemplateEqual compares two templates semantically.
func TemplateEqual(a, b *corev1.PodTemplateSpec) bool {
	if a == nil || b == nil {
		return a == b
	}
	return apiequality.Semantic.DeepEqual(normTemplate(a), normTemplate(b))
}

func NewView(r *world.Record) *View {
	v := &View{R: r, Set: r.Set, ByOrd: map[int]*corev1.Pod{}}
	for _, c := range r.Calls {
		if !c.OK() {
			v.AnyErr = true
		}
		if c.Res == simapi.Pods && c.Verb == "create" {
			v.PodCreates = append(v.PodCreates, c)
		}
		if c.Res == simapi.Pods && c.Verb == "delete" {
			v.PodDeletes = append(v.PodDeletes, c)
		}
	}
	if r.Set == nil {
		return v
	}
	s := r.Set
	v.Paused = s.Annotations[helper.PausedReconcileAnn] == "true"
	v.Deleting = s.DeletionTimestamp != nil
	v.Selector, v.SelErr = metav1.LabelSelectorAsSelector(s.Spec.Selector)
	if v.SelErr != nil {
		return v
	}
	v.Slots = world.SlotsOf(s)
	if s.Spec.Replicas != nil {
		v.Replicas = int(*s.Spec.Replicas)
	}
	v.Desired = refspec.DesiredSet(v.Replicas, v.Slots)
	v.Rolling = s.Spec.UpdateStrategy.Type == asv1.RollingUpdateStatefulSetStrategyType
	if ru := s.Spec.UpdateStrategy.RollingUpdate; ru != nil && ru.Partition != nil {
		v.HasBlock = true
		v.Partition = int(*ru.Partition)
	}
	v.Monotonic = s.Spec.PodManagementPolicy != asv1.ParallelPodManagement

	adopted := map[string]bool{}
	for _, c := range r.Calls {
		if c.Res == simapi.Pods && c.Verb == "patch" && c.OK() && strings.Contains(string(c.Patch), `"controller":true`) {
			adopted[c.Name] = true
		}
	}
	for _, p := range r.Pods {
		parent, ord, ok := refspec.ParsePodName(p.Name)
		member := parent == s.Name && p.Name != "" && strings.HasPrefix(p.Name, s.Name+"-")
		match := v.Selector.Matches(labels.Set(p.Labels))
		ctrl := hasCtrl(p)
		switch {
		case ctrl != nil && ctrl.UID == s.UID && match && member:
			v.Claimed = append(v.Claimed, p)
		case ctrl == nil && match && member && !v.Deleting && p.DeletionTimestamp == nil:
			v.Adoptable = append(v.Adoptable, p)
			if adopted[p.Name] {
				v.Claimed = append(v.Claimed, p)
			} else {
				continue
			}
		default:
			continue
		}
		if ok {
			v.ByOrd[ord] = p
		}
	}
	v.RevsBefore = ListedRevisions(r.Before, s, v.Selector)
	v.RevsAfter = ListedRevisions(r.After, s, v.Selector)
	// update revision: the listed revision mirroring the cached template, highest Revision
	var best *appsv1.ControllerRevision
	for _, rev := range v.RevsAfter {
		if t := world.DecodeRevisionTemplate(rev); t != nil && TemplateEqual(t, &s.Spec.Template) {
			if best == nil || revLess(best, rev) {
				best = rev
			}
		}
	}
	if best != nil {
		v.UpdateRev = best.Name
	} else {
		// no revision of the set mirrors the template, but the reconcile may have run into an existing
		// object of the very name and content it wanted to create (e.g. a migrated revision the garbage
		// collector has not yet released): the controller then uses that object
		for _, c := range r.Calls {
			if c.Res == simapi.Revisions && c.Verb == "create" && !c.OK() {
				if ex, ok := c.Before.(*appsv1.ControllerRevision); ok && ex != nil {
					if t := world.DecodeRevisionTemplate(ex); t != nil && TemplateEqual(t, &s.Spec.Template) {
						v.UpdateRev = ex.Name
						v.RevsAfter = append(v.RevsAfter, ex)
					}
				}
			}
		}
	}
	v.CurrentRev = v.UpdateRev
	for _, rev := range v.RevsAfter {
		if rev.Name == s.Status.CurrentRevision && s.Status.CurrentRevision != "" {
			v.CurrentRev = rev.Name
		}
	}
	return v
}

// Active tells whether the reconcile got as far as looking at pods.
func (v *View) Active() bool { return v.Set != nil && !v.Paused && v.SelErr == nil }

func podRev(p *corev1.Pod) string { return p.Labels[appsv1.StatefulSetRevisionLabel] }

func isTerminal(p *corev1.Pod) bool {
	return p.Status.Phase == corev1.PodFailed || p.Status.Phase == corev1.PodSucceeded
}

// Condemned returns claimed pods outside the desired set, ascending by ordinal.
func (v *View) Condemned() []*corev1.Pod {
	var out []*corev1.Pod
	for ord, p := range v.ByOrd {
		if !v.Desired[ord] {
			out = append(out, p)
		}
	}
	sort.Slice(out, func(i, j int) bool { return ordOf(out[i]) < ordOf(out[j]) })
	return out
}

func ordOf(p *corev1.Pod) int {
	_, o, _ := refspec.ParsePodName(p.Name)
	return o
}

func (v *View) claimedByName(name string) *corev1.Pod {
	for _, p := range v.Claimed {
		if p.Name == name {
			return p
		}
	}
	return nil
}

// Sig is a compact signature of what the reconcile saw and did (for counting distinct cases).
func (v *View) Sig() string {
	var b strings.Builder
	if v.Set == nil {
		return "noset"
	}
	fmt.Fprintf(&b, "r%d s%v %s %s p%d hb%v|", v.Replicas, refspec.SortedInts(v.Slots), v.Set.Spec.PodManagementPolicy, v.Set.Spec.UpdateStrategy.Type, v.Partition, v.HasBlock)
	ords := make([]int, 0, len(v.ByOrd))
	for o := range v.ByOrd {
		ords = append(ords, o)
	}
	sort.Ints(ords)
	for _, o := range ords {
		p := v.ByOrd[o]
		up := 'o'
		if podRev(p) == v.UpdateRev {
			up = 'u'
		}
		fmt.Fprintf(&b, "%d%c%c%v%v,", o, p.Status.Phase[0], up, world.IsReady(p), p.DeletionTimestamp != nil)
	}
	b.WriteString("|")
	for _, c := range v.R.Calls {
		if c.IsWrite() {
			_, o, _ := refspec.ParsePodName(c.Name)
			fmt.Fprintf(&b, "%s:%s:%d:%v,", c.Verb, c.Res, o, c.OK())
		}
	}
	return b.String()
}
