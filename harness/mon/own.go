package mon

import (
	"fmt"
	"strings"

	asv1 "github.com/pingcap/advanced-statefulset/client/apis/apps/v1"
	"github.com/pingcap/advanced-statefulset/client/apis/apps/v1/helper"
	appsv1 "k8s.io/api/apps/v1"
	corev1 "k8s.io/api/core/v1"
	"k8s.io/apimachinery/pkg/api/meta"
	metav1 "k8s.io/apimachinery/pkg/apis/meta/v1"
	"k8s.io/apimachinery/pkg/labels"

	"verif/harness/refspec"
	"verif/harness/simapi"
	"verif/harness/world"
)

// ---------------------------------------------------------------------------
// C10 ownership

func isAdoptionPatch(c *simapi.Call, uid string) bool {
	return c.Verb == "patch" && strings.Contains(string(c.Patch), `"controller":true`) && strings.Contains(string(c.Patch), `"uid":"`+uid+`"`)
}

func isReleasePatch(c *simapi.Call, uid string) bool {
	return c.Verb == "patch" && strings.Contains(string(c.Patch), `"$patch":"delete"`) && strings.Contains(string(c.Patch), `"uid":"`+uid+`"`)
}

func CheckC10(v *View, st Stats) []Violation {
	var out []Violation
	r := v.R
	for _, m := range r.CacheMutations {
		out = append(out, viol("C10", "cache-mutated", "object read from the cache was modified in place: %s", m))
	}
	if v.Set == nil {
		for _, c := range r.Writes() {
			out = append(out, viol("C10", "write-without-set", "no such set in the cache but the reconcile issued %s", c))
		}
		return out
	}
	uid := string(v.Set.UID)
	cachedPod := map[string]*corev1.Pod{}
	for _, p := range r.Pods {
		cachedPod[p.Name] = p
	}
	freshOK := false // an uncached read confirmed: same UID, not being deleted
	freshSeen := false
	adoptedNow := map[string]bool{}
	createdNow := map[string]bool{} // pods this reconcile created successfully
	for _, c := range r.Calls {
		if c.Res == simapi.Sets && c.Verb == "get" && c.Name == v.Set.Name {
			freshSeen = true
			if s, ok := c.Result.(*asv1.StatefulSet); ok && c.OK() && s != nil {
				freshOK = string(s.UID) == uid && s.DeletionTimestamp == nil
			} else {
				freshOK = false
			}
			st.Inc("fresh_reads_seen")
			continue
		}
		if !c.IsWrite() {
			continue
		}
		if c.Res == simapi.Sets || c.Res == simapi.BuiltinSet {
			if c.Sub != "status" {
				out = append(out, viol("C10", "set-written-outside-status", "the set itself was written through %s", c))
			}
			if w, ok := c.Obj.(*asv1.StatefulSet); ok && c.Sub == "status" {
				creates := 0
				for _, d := range v.PodCreates {
					if d.OK() {
						creates++
					}
				}
				if int(w.Status.Replicas) > len(v.Claimed)+creates {
					out = append(out, viol("C10", "foreign-pods-counted", "status.replicas=%d but the set claims only %d pods in the snapshot (+%d created)", w.Status.Replicas, len(v.Claimed), creates))
				}
			}
			continue
		}
		if c.Res != simapi.Pods && c.Res != simapi.Revisions {
			continue
		}
		if c.Verb == "create" {
			if c.OK() && c.Res == simapi.Pods {
				createdNow[c.Name] = true
			}
			continue
		}
		if c.Before == nil {
			continue // target absent: nothing is touched
		}
		st.Inc("ownership_writes_checked")
		bm, _ := meta.Accessor(c.Before)
		ctrl := hasCtrl(bm)
		if cp := cachedPod[c.Name]; c.Res == simapi.Pods && cp != nil && createdNow[c.Name] {
			// the reconcile itself created this pod a moment ago (the cache may still hold a vanished
			// namesake): it acts on its own object (a Parallel set goes on to the update walk after creating)
			ctrl = hasCtrl(bm)
		} else if c.Res == simapi.Pods && cp != nil {
			// pods are judged by the snapshot the reconcile acted on (its pod cache); the API object
			// may have changed hands since, which no controller can know without a fresh read
			ctrl = hasCtrl(cp)
			if adoptedNow[c.Name] {
				ctrl = hasCtrl(bm) // adopted earlier in this very reconcile
			}
		}
		if c.Res == simapi.Pods && isReleasePatch(c, uid) {
			// removing the set's own owner reference can never affect anybody else's ownership; it is
			// legitimate whenever the snapshot showed the pod as controlled by the set and not matching
			cp := cachedPod[c.Name]
			if cp != nil {
				cc := hasCtrl(cp)
				parent, _, _ := refspec.ParsePodName(cp.Name)
				matches := v.SelErr == nil && v.Selector.Matches(labels.Set(cp.Labels)) && parent == v.Set.Name
				if cc != nil && string(cc.UID) == uid && !matches && !v.Deleting {
					st.Inc("nonmatching_owned_pod_writes")
					st.Inc("releases_checked")
					continue
				}
			}
		}
		switch {
		case ctrl != nil && string(ctrl.UID) != uid:
			st.Inc("writes_on_foreign_seen")
			out = append(out, viol("C10", "foreign-object-touched", "%s — the target is controlled by %s/%s (uid %s), not by this set (uid %s)", c, ctrl.Kind, ctrl.Name, ctrl.UID, uid))
		case ctrl == nil:
			// an orphan: only adoption (and, for marker revisions, the label sync preceding it) is allowed
			if isAdoptionPatch(c, uid) {
				st.Inc("adoption_patches_checked")
				if c.OK() && c.Res == simapi.Pods {
					adoptedNow[c.Name] = true
				}
				if !freshSeen {
					out = append(out, viol("C10", "adoption-without-fresh-read", "%s — no uncached read of the set precedes this adoption in the reconcile", c))
				} else if !freshOK {
					out = append(out, viol("C10", "adoption-after-failed-confirmation", "%s — the uncached read did not confirm the set (other uid, being deleted, or failed)", c))
				}
				if c.Res == simapi.Pods {
					p := c.Before.(*corev1.Pod)
					cp := cachedPod[p.Name]
					if cp == nil {
						cp = p
					}
					parent, _, _ := refspec.ParsePodName(cp.Name)
					if parent != v.Set.Name || v.SelErr != nil || !v.Selector.Matches(labels.Set(cp.Labels)) || cp.DeletionTimestamp != nil {
						out = append(out, viol("C10", "adopted-unclaimable-pod", "%s — the pod is not an unowned, live, matching pod named %s-<n>", c, v.Set.Name))
					}
				}
				continue
			}
			if c.Res == simapi.Revisions {
				rev := c.Before.(*appsv1.ControllerRevision)
				_, marked := rev.Labels[helper.UpgradeToAdvancedStatefulSetAnn]
				if c.Verb == "update" && marked && revByName(v.RevsBefore, rev.Name) != nil {
					// label sync of a migrated orphan the set's listing returns: the first half of its adoption
					st.Inc("marker_label_syncs_seen")
					continue
				}
				if c.Verb == "delete" {
					continue // judged by C13
				}
			}
			out = append(out, viol("C10", "orphan-touched-without-adoption", "%s — the target has no controller and the write is not an adoption", c))
		default:
			// owned by this set
			if c.Res == simapi.Pods {
				p := cachedPod[c.Name]
				if p == nil || createdNow[c.Name] {
					p = c.Before.(*corev1.Pod)
				}
				parent, _, _ := refspec.ParsePodName(p.Name)
				matches := v.SelErr == nil && v.Selector.Matches(labels.Set(p.Labels)) && parent == v.Set.Name
				if !matches {
					st.Inc("nonmatching_owned_pod_writes")
					if !isReleasePatch(c, uid) {
						out = append(out, viol("C10", "nonmatching-pod-not-released", "%s — the pod is controlled by the set but no longer matches; only removing the owner reference is allowed", c))
					}
				} else if isReleasePatch(c, uid) {
					out = append(out, viol("C10", "matching-pod-released", "%s — a matching pod of the set was released", c))
				}
			}
		}
	}
	return out
}

// ---------------------------------------------------------------------------
// C06 identity / storage / claims first

func CheckC06(v *View, st Stats) []Violation {
	var out []Violation
	for _, c := range v.R.Calls {
		if c.Res == simapi.PVCs && c.IsWrite() && c.Verb != "create" {
			out = append(out, viol("C06", "claim-rewritten-or-deleted", "%s", c))
		}
	}
	if v.Set == nil {
		return out
	}
	s := v.Set
	var matchLabels map[string]string
	if s.Spec.Selector != nil {
		matchLabels = s.Spec.Selector.MatchLabels
	}
	claimKnown := map[string]bool{}  // claim exists in the API as far as the log shows
	claimFailed := map[string]bool{} // a create/lookup of the claim failed in this reconcile
	for _, o := range v.R.Before.List(simapi.PVCs, s.Namespace) {
		m, _ := meta.Accessor(o)
		claimKnown[m.GetName()] = true
	}
	// a claim the controller's claim cache still shows counts as existing: with a stale cache no
	// controller can know that somebody deleted it a moment ago
	for name := range v.R.PVCs {
		claimKnown[name] = true
	}
	for _, c := range v.R.Calls {
		if c.Res == simapi.PVCs && c.Verb == "create" {
			st.Inc("claim_creates_checked")
			if c.After != nil {
				claimKnown[c.Name] = true
			}
			if !c.OK() {
				claimFailed[c.Name] = true
			}
			if c.NS != s.Namespace {
				out = append(out, viol("C06", "claim-wrong-namespace", "%s", c))
			}
			if pvc, ok := c.Obj.(*corev1.PersistentVolumeClaim); ok {
				for k, val := range matchLabels {
					if pvc.Labels[k] != val {
						out = append(out, viol("C06", "claim-without-selector-labels", "claim %s created without the selector's match label %s=%s (labels %v)", c.Name, k, val, pvc.Labels))
						break
					}
				}
			}
			continue
		}
		if c.Res != simapi.Pods || c.Verb != "create" {
			continue
		}
		pod, ok := c.Obj.(*corev1.Pod)
		if !ok {
			continue
		}
		st.Inc("created_pods_checked")
		parent, ord, pok := refspec.ParsePodName(pod.Name)
		if !pok || parent != s.Name || pod.Name != fmt.Sprintf("%s-%d", s.Name, ord) {
			out = append(out, viol("C06", "pod-name", "created pod %q is not %s-<ordinal>", pod.Name, s.Name))
			continue
		}
		if pod.Namespace != "" && pod.Namespace != s.Namespace || c.NS != s.Namespace {
			out = append(out, viol("C06", "pod-namespace", "pod %s created in namespace %q/%q, set lives in %q", pod.Name, pod.Namespace, c.NS, s.Namespace))
		}
		if pod.Spec.Hostname != pod.Name {
			out = append(out, viol("C06", "hostname", "pod %s created with hostname %q", pod.Name, pod.Spec.Hostname))
		}
		if pod.Spec.Subdomain != s.Spec.ServiceName {
			out = append(out, viol("C06", "subdomain", "pod %s created with subdomain %q, governing service is %q", pod.Name, pod.Spec.Subdomain, s.Spec.ServiceName))
		}
		if pod.Labels[asv1.StatefulSetPodNameLabel] != pod.Name {
			out = append(out, viol("C06", "pod-name-label", "pod %s created with pod-name label %q", pod.Name, pod.Labels[asv1.StatefulSetPodNameLabel]))
		}
		if rl := podRev(pod); rl == "" || revByName(v.RevsAfter, rl) == nil {
			out = append(out, viol("C06", "revision-label", "pod %s created with revision label %q which names no revision of the set", pod.Name, rl))
		} else if t := world.DecodeRevisionTemplate(revByName(v.RevsAfter, rl)); t != nil && !podBuiltFrom(pod, t) {
			out = append(out, viol("C06", "revision-label-not-the-one-built-from", "pod %s carries revision label %s but was built from a different template", pod.Name, rl))
		}
		nCtrl := 0
		for _, o := range pod.OwnerReferences {
			if o.Controller != nil && *o.Controller {
				nCtrl++
				if o.UID != s.UID || o.Name != s.Name || o.Kind != "StatefulSet" || o.APIVersion != asv1.SchemeGroupVersion.String() {
					out = append(out, viol("C06", "owner-reference", "pod %s created with controller reference %+v, set is %s uid %s", pod.Name, o, s.Name, s.UID))
				}
			}
		}
		if nCtrl != 1 {
			out = append(out, viol("C06", "owner-reference", "pod %s created with %d controller references", pod.Name, nCtrl))
		}
		for _, t := range s.Spec.VolumeClaimTemplates {
			want := fmt.Sprintf("%s-%s-%d", t.Name, s.Name, ord)
			n := 0
			for _, vol := range pod.Spec.Volumes {
				if vol.Name != t.Name {
					continue
				}
				n++
				if vol.PersistentVolumeClaim == nil || vol.PersistentVolumeClaim.ClaimName != want {
					out = append(out, viol("C06", "volume-binding", "pod %s: volume %s is not bound to claim %s", pod.Name, t.Name, want))
				} else if vol.PersistentVolumeClaim.ReadOnly {
					// the claim is the ordinal's storage: bound for reading and writing, as the built-in controller binds it
					out = append(out, viol("C06", "volume-binding", "pod %s: volume %s is bound to claim %s read-only", pod.Name, t.Name, want))
				}
			}
			if n != 1 {
				out = append(out, viol("C06", "volume-binding", "pod %s has %d volumes named %s", pod.Name, n, t.Name))
			}
			st.Inc("claim_bindings_checked")
			if !claimKnown[want] {
				out = append(out, viol("C06", "pod-before-claim", "pod %s created although claim %s does not exist yet", pod.Name, want))
			}
			if claimFailed[want] {
				out = append(out, viol("C06", "pod-after-failed-claim", "pod %s created although creating claim %s failed in this reconcile", pod.Name, want))
			}
		}
	}
	return out
}

var _ = metav1.Now
