package refspec

import (
	"fmt"
	"math"
	"os"

	"sigs.k8s.io/yaml"
)

// CRD is a tiny interpreter of the structural schema shipped in
// manifests/crd.v1.yaml (type, required, minimum, default, properties, items,
// x-kubernetes-preserve-unknown-fields): what the API server would admit, and
// the defaults it would apply, for the storage version.
type CRD struct{ schema map[string]interface{} }

func LoadCRD(path string) (*CRD, error) {
	b, err := os.ReadFile(path)
	if err != nil {
		return nil, err
	}
	var doc map[string]interface{}
	if err := yaml.Unmarshal(b, &doc); err != nil {
		return nil, err
	}
	spec, _ := doc["spec"].(map[string]interface{})
	vers, _ := spec["versions"].([]interface{})
	for _, v := range vers {
		vm, _ := v.(map[string]interface{})
		if st, _ := vm["storage"].(bool); st {
			sch, _ := vm["schema"].(map[string]interface{})
			o, _ := sch["openAPIV3Schema"].(map[string]interface{})
			if o == nil {
				return nil, fmt.Errorf("no openAPIV3Schema for storage version")
			}
			return &CRD{schema: o}, nil
		}
	}
	return nil, fmt.Errorf("no storage version in %s", path)
}

// Admit validates obj (decoded JSON) against the schema and applies defaults in place.
func (c *CRD) Admit(obj map[string]interface{}) error {
	return admit(c.schema, obj, "")
}

func admit(sch map[string]interface{}, val interface{}, path string) error {
	typ, _ := sch["type"].(string)
	switch typ {
	case "object":
		m, ok := val.(map[string]interface{})
		if !ok {
			return fmt.Errorf("%s: must be an object", path)
		}
		props, _ := sch["properties"].(map[string]interface{})
		// defaulting first (as the API server does), only for absent keys
		for k, ps := range props {
			psm, _ := ps.(map[string]interface{})
			if d, has := psm["default"]; has {
				if _, present := m[k]; !present {
					m[k] = d
				}
			}
		}
		if req, ok := sch["required"].([]interface{}); ok {
			for _, r := range req {
				if _, present := m[r.(string)]; !present {
					return fmt.Errorf("%s.%s: Required value", path, r)
				}
			}
		}
		for k, v := range m {
			ps, known := props[k].(map[string]interface{})
			if !known {
				// root: apiVersion/kind/metadata are implicit; elsewhere unknown fields are
				// pruned unless preserved. Pruning is not modelled: generators only emit known
				// fields outside preserve-unknown subtrees.
				continue
			}
			if v == nil {
				return fmt.Errorf("%s.%s: null is not allowed (not nullable)", path, k)
			}
			if err := admit(ps, v, path+"."+k); err != nil {
				return err
			}
		}
	case "array":
		l, ok := val.([]interface{})
		if !ok {
			return fmt.Errorf("%s: must be an array", path)
		}
		if items, ok := sch["items"].(map[string]interface{}); ok {
			for i, it := range l {
				if err := admit(items, it, fmt.Sprintf("%s[%d]", path, i)); err != nil {
					return err
				}
			}
		}
	case "integer":
		f, ok := val.(float64)
		if !ok || f != math.Trunc(f) {
			if i, ok2 := val.(int64); ok2 {
				f = float64(i)
			} else if i, ok2 := val.(int); ok2 {
				f = float64(i)
			} else {
				return fmt.Errorf("%s: must be an integer", path)
			}
		}
		if min, ok := toF(sch["minimum"]); ok && f < min {
			return fmt.Errorf("%s: must be >= %v", path, min)
		}
	case "string":
		if _, ok := val.(string); !ok {
			return fmt.Errorf("%s: must be a string", path)
		}
	}
	return nil
}

func toF(v interface{}) (float64, bool) {
	switch t := v.(type) {
	case float64:
		return t, true
	case int64:
		return float64(t), true
	case int:
		return float64(t), true
	}
	return 0, false
}
