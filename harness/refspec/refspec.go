// Package refspec holds the small, independent reference definitions the
// monitors compare the real code against.
package refspec

import (
	"sort"
	"strconv"
	"strings"
)

// Desired is the specification of the desired ordinal set: the first r
// non-negative integers that are not delete slots.
func Desired(r int, slots map[int]bool) []int {
	out := make([]int, 0, r)
	for i := 0; len(out) < r; i++ {
		if !slots[i] {
			out = append(out, i)
		}
	}
	return out
}

func DesiredSet(r int, slots map[int]bool) map[int]bool {
	m := map[int]bool{}
	for _, i := range Desired(r, slots) {
		m[i] = true
	}
	return m
}

// ParsePodName splits "<parent>-<decimal>" (the last dash separates). ok is false
// when the name has no such shape or the number does not fit an int32.
func ParsePodName(name string) (parent string, ord int, ok bool) {
	i := strings.LastIndexByte(name, '-')
	if i < 0 || i == len(name)-1 {
		return "", -1, false
	}
	digits := name[i+1:]
	for _, c := range digits {
		if c < '0' || c > '9' {
			return "", -1, false
		}
	}
	n, err := strconv.ParseInt(digits, 10, 32)
	if err != nil {
		return name[:i], -1, false
	}
	return name[:i], int(n), true
}

func SortedInts(m map[int]bool) []int {
	var l []int
	for k := range m {
		l = append(l, k)
	}
	sort.Ints(l)
	return l
}
