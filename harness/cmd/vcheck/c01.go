package main

import (
	"encoding/json"
	"fmt"
	corev1 "k8s.io/api/core/v1"
	"math"
	"sort"

	asv1 "github.com/pingcap/advanced-statefulset/client/apis/apps/v1"
	"github.com/pingcap/advanced-statefulset/client/apis/apps/v1/helper"
	metav1 "k8s.io/apimachinery/pkg/apis/meta/v1"
	"k8s.io/apimachinery/pkg/util/sets"

	"verif/harness/refspec"
	"verif/harness/simapi"
	"verif/harness/world"
)

// C01: exhaustive enumeration of (replicas, slot set, annotation text) against refspec.Desired.

const c01Blocks = 64

func c01Universe(tier string) (rMax int, elems []int32, ctlRMax int, ctlElems []int32) {
	if tier == "thorough" {
		return 9, []int32{-3, -2, -1, 0, 1, 2, 3, 4, 5, 6, 7, 8, 9, 10, 11, 12, 13}, 6, []int32{-2, -1, 0, 1, 2, 3, 4, 5, 6, 7, 8}
	}
	return 8, []int32{-3, -2, -1, 0, 1, 2, 3, 4, 5, 6, 7, 8, 9, 10, 11}, 5, []int32{-1, 0, 1, 2, 3, 4, 5, 6}
}

func sortedI32(s sets.Int32) []int {
	var l []int
	for k := range s {
		l = append(l, int(k))
	}
	sort.Ints(l)
	return l
}

func eqInts(a, b []int) bool {
	if len(a) != len(b) {
		return false
	}
	for i := range a {
		if a[i] != b[i] {
			return false
		}
	}
	return true
}

type annObj struct{ metav1.ObjectMeta }

var annSeq int

func objWithAnn(text *string) *annObj {
	o := &annObj{}
	// half of the objects look like something read from the API server (identity + version): helpers
	// must answer from the annotation the object carries now, whatever they saw under that identity before
	annSeq++
	if annSeq%2 == 0 {
		o.UID, o.ResourceVersion = "uid-fixed", "42"
	}
	if text != nil {
		o.Annotations = map[string]string{helper.DeleteSlotsAnn: *text, "other": "x"}
	}
	return o
}

// c01CheckHelpers checks every helper on one (r, S) pair given as annotation text + independently known slot set.
func c01CheckHelpers(r int, slots []int32, text *string, where string) []string {
	var bad []string
	m := map[int]bool{}
	for _, s := range slots {
		m[int(s)] = true
	}
	want := refspec.Desired(r, m)
	in := sets.NewInt32(slots...)
	before := sortedI32(in)
	if got := sortedI32(helper.GetPodOrdinalsFromReplicasAndDeleteSlots(int32(r), in)); !eqInts(got, want) {
		bad = append(bad, fmt.Sprintf("GetPodOrdinalsFromReplicasAndDeleteSlots(%d,%v)=%v want %v", r, slots, got, want))
	}
	b, e := helper.GetMaxReplicaCountAndDeleteSlots(int32(r), in)
	if !eqInts(sortedI32(in), before) {
		bad = append(bad, fmt.Sprintf("GetMaxReplicaCountAndDeleteSlots(%d,%v) mutated its input", r, slots))
	}
	wantB := 0
	if len(want) > 0 {
		wantB = want[len(want)-1] + 1
	}
	if int(b) != wantB {
		bad = append(bad, fmt.Sprintf("GetMaxReplicaCountAndDeleteSlots(%d,%v) bound=%d want %d", r, slots, b, wantB))
	}
	var rng []int
	for i := 0; i < int(b); i++ {
		if !e.Has(int32(i)) {
			rng = append(rng, i)
		}
	}
	if !eqInts(rng, want) {
		bad = append(bad, fmt.Sprintf("GetMaxReplicaCountAndDeleteSlots(%d,%v)=(%d,%v): [0,b)\\E=%v want %v", r, slots, b, sortedI32(e), rng, want))
	}
	for k := range e {
		if !m[int(k)] || k < 0 || k >= b {
			bad = append(bad, fmt.Sprintf("GetMaxReplicaCountAndDeleteSlots(%d,%v) effective slot %d is not a slot inside [0,%d)", r, slots, k, b))
		}
	}
	if text != nil || len(slots) == 0 {
		o := objWithAnn(text)
		if got := sortedI32(helper.GetPodOrdinals(int32(r), o)); !eqInts(got, want) {
			bad = append(bad, fmt.Sprintf("GetPodOrdinals(%d, %s)=%v want %v", r, where, got, want))
		}
		wmax, wmin := int32(-1), int32(math.MaxInt32)
		if len(want) > 0 {
			wmax, wmin = int32(want[len(want)-1]), int32(want[0])
		}
		if got := helper.GetMaxPodOrdinal(int32(r), o); got != wmax {
			bad = append(bad, fmt.Sprintf("GetMaxPodOrdinal(%d, %s)=%d want %d", r, where, got, wmax))
		}
		if got := helper.GetMinPodOrdinal(int32(r), o); got != wmin {
			bad = append(bad, fmt.Sprintf("GetMinPodOrdinal(%d, %s)=%d want %d", r, where, got, wmin))
		}
		if text != nil && (o.Annotations["other"] != "x" || o.Annotations[helper.DeleteSlotsAnn] != *text) {
			bad = append(bad, "a read helper modified the annotations")
		}
	}
	return bad
}

type annText struct {
	Text  string
	Slots []int32 // independently known meaning (nil with Quirk=false means empty set)
	Quirk bool    // meaning is a decoder quirk: take GetDeleteSlots' answer, only check downstream agreement
}

func c01Texts() []annText {
	return []annText{
		{Text: "", Slots: nil}, {Text: "[]", Slots: nil}, {Text: "null", Slots: nil}, {Text: "{}", Slots: nil},
		{Text: "[1,1,1]", Slots: []int32{1}}, {Text: "[3,1,2,1]", Slots: []int32{1, 2, 3}}, {Text: " [ 0 , 2 ] ", Slots: []int32{0, 2}},
		{Text: "[0,2", Slots: nil}, {Text: "0,2", Slots: nil}, {Text: "[\"1\"]", Slots: nil}, {Text: "[1,\"a\"]", Slots: nil}, {Text: "true", Slots: nil},
		{Text: "[2147483648]", Slots: nil}, {Text: "[-2147483649]", Slots: nil}, {Text: "[1e100]", Slots: nil},
		{Text: "[2147483647]", Slots: []int32{math.MaxInt32}}, {Text: "[2147483646,2147483647]", Slots: []int32{math.MaxInt32 - 1, math.MaxInt32}},
		{Text: "[-2147483648]", Slots: []int32{math.MinInt32}}, {Text: "[-1]", Slots: []int32{-1}}, {Text: "[-1,0,1]", Slots: []int32{-1, 0, 1}},
		{Text: "[0,-2147483648,2147483647,2]", Slots: []int32{math.MinInt32, 0, 2, math.MaxInt32}},
		{Text: "[null]", Quirk: true}, {Text: "[1.0]", Quirk: true}, {Text: "[1.5]", Quirk: true}, {Text: "[1,null,2]", Quirk: true}, {Text: "[01]", Quirk: true},
	}
}

func runC01(ctx *Ctx) *Result {
	res := newResult()
	rMax, elems, ctlRMax, ctlElems := c01Universe(ctx.Tier)
	report := func(i int, clause, msg string, detail interface{}) {
		res.Violations = append(res.Violations, Witness{Prop: "C01", Clause: clause, Msg: msg, Family: "c01", Case: i, Seed: ctx.Seed, Tier: ctx.Tier, Detail: detail})
	}
	reported := map[string]int{}
	add := func(i int, clause, msg string, detail interface{}) {
		reported[clause]++
		if reported[clause] <= 3 {
			report(i, clause, msg, detail)
		}
	}
	nSub := 1 << len(elems)
	var srv *simapi.Server
	var w *world.World
	for blk := 0; blk < ctx.N; blk++ {
		if !ctx.mine(blk) {
			continue
		}
		if blk < c01Blocks {
			// helper half: subsets whose index ≡ blk (mod c01Blocks), all r
			for idx := blk; idx < nSub; idx += c01Blocks {
				var slots []int32
				for b, e := range elems {
					if idx&(1<<b) != 0 {
						slots = append(slots, e)
					}
				}
				jb, _ := json.Marshal(slots)
				text := string(jb)
				if len(slots) == 0 {
					text = "[]"
				}
				for r := 0; r <= rMax; r++ {
					res.Evaluations++
					res.Stats["helper_cases"]++
					if len(slots) > 0 {
						res.Stats["helper_cases_with_slots"]++
					}
					for _, s := range slots {
						if s < 0 {
							res.Stats["helper_cases_with_negative_slot"]++
							break
						}
					}
					bad := c01CheckHelpers(r, slots, &text, fmt.Sprintf("annotation %q", text))
					for _, b := range bad {
						add(blk, "helper-disagrees-with-spec", b, map[string]interface{}{"replicas": r, "slots": slots})
					}
					if len(slots) > 0 && r > 0 {
						res.sig(fmt.Sprintf("h/%d/%v", r, slots))
					}
				}
			}
			if blk == 0 {
				res.sample(4, map[string]interface{}{"kind": "helper case", "replicas": 3, "slots": []int{-1, 1}, "spec": refspec.Desired(3, map[int]bool{-1: true, 1: true})})
				// absent annotation
				for r := 0; r <= rMax; r++ {
					res.Evaluations++
					for _, b := range c01CheckHelpers(r, nil, nil, "no annotation") {
						add(blk, "helper-disagrees-with-spec", b, nil)
					}
				}
				// annotation texts
				for _, at := range c01Texts() {
					for r := 0; r <= rMax; r++ {
						res.Evaluations++
						res.Stats["annotation_text_cases"]++
						t := at.Text
						slots := at.Slots
						got := helper.GetDeleteSlots(objWithAnn(&t))
						if at.Quirk {
							res.Stats["annotation_text_quirk_cases"]++
							slots = nil
							for k := range got {
								slots = append(slots, k)
							}
						} else {
							ws := sets.NewInt32(at.Slots...)
							if !got.Equal(ws) {
								add(blk, "annotation-parse", fmt.Sprintf("GetDeleteSlots(%q)=%v want %v", t, sortedI32(got), sortedI32(ws)), nil)
							}
						}
						for _, b := range c01CheckHelpers(r, slots, &t, fmt.Sprintf("annotation %q", t)) {
							add(blk, "helper-disagrees-with-spec", b, map[string]interface{}{"replicas": r, "annotation": t})
						}
						res.sig(fmt.Sprintf("t/%d/%s", r, t))
					}
				}
				res.sample(4, map[string]interface{}{"kind": "annotation text case", "text": "[3,1,2,1]", "meaning": []int{1, 2, 3}})
			}
			continue
		}
		// controller half: block = blk - c01Blocks selects subsets of ctlElems
		if w == nil {
			srv = simapi.New()
			w = world.New(srv)
		}
		cb := blk - c01Blocks
		nCtl := 1 << len(ctlElems)
		for idx := cb; idx < nCtl; idx += (ctx.N - c01Blocks) {
			var slots []int32
			for b, e := range ctlElems {
				if idx&(1<<b) != 0 {
					slots = append(slots, e)
				}
			}
			m := map[int]bool{}
			for _, s := range slots {
				m[int(s)] = true
			}
			for r := 0; r <= ctlRMax; r++ {
				for _, pol := range []asv1.PodManagementPolicyType{asv1.ParallelPodManagement, asv1.OrderedReadyPodManagement} {
					res.Evaluations++
					res.Stats["controller_cases"]++
					want := refspec.Desired(r, m)
					got, tr, incon := c01Controller(w, r, slots, pol, false)
					if incon != "" {
						res.Inconclusive = append(res.Inconclusive, incon)
						continue
					}
					if !eqInts(got, want) {
						add(blk, "controller-creates-differ-from-spec", fmt.Sprintf("replicas=%d slots=%v policy=%s: controller created pods at %v, spec is %v", r, slots, pol, got, want),
							map[string]interface{}{"trace": tr})
					}
					// the same with bystanders around: unowned pods carrying the set's labels whose names merely
					// resemble the set's pod names occupy no ordinal
					if r > 0 && (idx+r)%3 == 0 {
						res.Evaluations++
						res.Stats["controller_cases_with_bystander_pods"]++
						got, tr, incon = c01Controller(w, r, slots, pol, true)
						if incon != "" {
							res.Inconclusive = append(res.Inconclusive, incon)
						} else if !eqInts(got, want) {
							add(blk, "controller-creates-differ-from-spec", fmt.Sprintf("replicas=%d slots=%v policy=%s, look-alike pods web-<n>-debug / xweb-<n> / web--<n> present: controller created pods at %v, spec is %v", r, slots, pol, got, want),
								map[string]interface{}{"trace": tr})
						}
					}
					if len(slots) > 0 && r > 0 {
						res.sig(fmt.Sprintf("c/%d/%v/%s", r, slots, pol))
					}
					if len(res.Samples) < 4 && len(slots) > 1 && r > 1 {
						res.sample(4, map[string]interface{}{"kind": "controller case", "replicas": r, "slots": slots, "policy": pol, "created_ordinals": got, "spec": want})
					}
				}
			}
		}
	}
	// controller half, histories: the annotation and replicas are edited after the controller has
	// recorded a revision under the old values; the pods must follow the *current* (r, S)
	if w != nil || ctx.mine(c01Blocks) {
		if w == nil {
			srv = simapi.New()
			w = world.New(srv)
		}
		type hist struct {
			r1 int
			s1 []int32
			r2 int
			s2 []int32
		}
		var hs []hist
		sl := [][]int32{nil, {0}, {1}, {1, 3}, {0, 2}, {2, 5}, {4}}
		for _, a := range sl {
			for _, b := range sl {
				for _, r1 := range []int{2, 3} {
					for _, r2 := range []int{1, 3, 4} {
						hs = append(hs, hist{r1, a, r2, b})
					}
				}
			}
		}
		for hi, h := range hs {
			if !ctx.mine(c01Blocks + hi%(ctx.N-c01Blocks)) {
				continue
			}
			for _, pol := range []asv1.PodManagementPolicyType{asv1.ParallelPodManagement, asv1.OrderedReadyPodManagement} {
				res.Evaluations++
				res.Stats["controller_history_cases"]++
				got, incon := c01History(w, h.r1, h.s1, h.r2, h.s2, pol)
				if incon != "" {
					res.Inconclusive = append(res.Inconclusive, incon)
					continue
				}
				m := map[int]bool{}
				for _, x := range h.s2 {
					m[int(x)] = true
				}
				want := refspec.Desired(h.r2, m)
				if !eqInts(got, want) {
					add(c01Blocks, "controller-pods-differ-from-spec-after-edit", fmt.Sprintf("replicas %d->%d slots %v->%v policy=%s: the set converged to pods at %v, spec is %v", h.r1, h.r2, h.s1, h.s2, pol, got, want), nil)
				}
				res.sig(fmt.Sprintf("hist/%v/%s", h, pol))
			}
		}
	}
	for k, n := range reported {
		res.Stats["violations_"+k] = n
	}
	return res
}

// c01History: converge under (r1,S1), edit to (r2,S2), converge again; returns the ordinals of the pods present.
func c01History(w *world.World, r1 int, s1 []int32, r2 int, s2 []int32, pol asv1.PodManagementPolicyType) ([]int, string) {
	w.Reset()
	p := int32(0)
	w.Srv.Seed(simapi.Sets, world.NewSet(world.SetOpts{Name: "web", Replicas: int32(r1), Slots: s1, Policy: pol, Partition: &p, HistLimit: 10}))
	run := world.NewRunner(w, 1, world.DefaultCfg())
	run.Sets = []string{"web"}
	if cr := run.Calm(1); !cr.Converged {
		return nil, fmt.Sprintf("history case: start state (%d,%v) not reached: %v", r1, s1, cr.NotConv)
	}
	w.EditSet("web", func(s *asv1.StatefulSet) {
		world.SetSlots(s, s2)
		s.Spec.Replicas = world.I32(int32(r2))
	})
	for i := 0; i < 40; i++ {
		run.CalmRound()
	}
	have := map[int]bool{}
	for _, n := range w.PodNames() {
		if _, ord, ok := refspec.ParsePodName(n); ok {
			have[ord] = true
		}
	}
	return refspec.SortedInts(have), ""
}

// c01Controller runs the real controller on an empty cluster and returns the ordinals it created pods at.
func c01Controller(w *world.World, r int, slots []int32, pol asv1.PodManagementPolicyType, bystanders bool) ([]int, []string, string) {
	w.Reset()
	p := int32(0)
	set := world.NewSet(world.SetOpts{Name: "web", Replicas: int32(r), Slots: slots, Policy: pol, Partition: &p, HistLimit: 10})
	w.Srv.Seed(simapi.Sets, set)
	if bystanders {
		for k := 0; k <= r+len(slots); k++ {
			name := []string{fmt.Sprintf("web-%d-debug", k), fmt.Sprintf("xweb-%d", k), fmt.Sprintf("web--%d", k)}[k%3]
			w.Srv.Seed(simapi.Pods, world.NewPod(world.PodOpts{Name: name, Labels: set.Spec.Selector.MatchLabels, SetName: "web", Ordinal: k,
				Phase: corev1.PodRunning, Scheduled: true, Ready: true, PodNameLbl: name}))
		}
	}
	w.DeliverAll()
	created := map[int]bool{}
	var trace []string
	rounds := 1
	if pol == asv1.OrderedReadyPodManagement {
		rounds = r + 3
	}
	for i := 0; i < rounds; i++ {
		rec := w.Reconcile(world.NS + "/web")
		if rec.Panic != nil {
			return nil, nil, fmt.Sprintf("reconcile panicked (replicas=%d slots=%v): %v", r, slots, rec.Panic)
		}
		for _, c := range rec.Calls {
			if c.Res == simapi.Pods && c.Verb == "create" {
				_, ord, ok := refspec.ParsePodName(c.Name)
				if !ok {
					ord = -999
				}
				if created[ord] && c.OK() {
					return nil, nil, ""
				}
				created[ord] = true
				trace = append(trace, c.String())
			}
		}
		for _, n := range w.PodNames() {
			w.Kubelet(n, "settle")
		}
		w.DeliverAll()
	}
	return refspec.SortedInts(created), trace, ""
}

func init() {
	register(&Check{Prop: "C01", Level: "exploration", Exhaustive: true,
		Rule: "exhaustive: every replicas r in 0..8 (9 thorough) x every subset of {-3..-1} U [0,12) (14 thorough) as slot set and as annotation text, plus absent/malformed/duplicate/extreme annotation texts, each against the independent spec 'first r naturals not in S' for all five helpers; controller half: every r<=5 x subset of [-1,7) x {Parallel, OrderedReady} on an empty cluster (a third of them again with unowned look-alike pods web-<n>-debug / xweb-<n> / web--<n> carrying the set's labels), create calls compared with the spec, plus 588 edit histories (r1,S1)->(r2,S2) incl. cleared annotations run to convergence and compared with the spec of the current values; non-trivial = r>0 and at least one slot; distinct = distinct (r, S[, policy])",
		Assume: []string{"replicas is kept small: the code allocates a slice of the effective range, so r near MaxInt32 is an out-of-memory question, not an ordinal question",
			"for texts whose meaning is a Go JSON decoder quirk ([null], [1.0]) only agreement downstream of GetDeleteSlots is checked"},
		Cases:  func(t string) int { return c01Blocks + 32 },
		Run:    runC01,
		Floors: []string{"helper_cases_with_negative_slot", "annotation_text_cases", "controller_cases", "controller_cases_with_bystander_pods", "controller_history_cases"}})
}
