package main

import (
	"fmt"
	"math/rand"
	"os"
	"path/filepath"
	"regexp"
	"sort"
	"strings"
	"sync"
	"sync/atomic"
	"time"

	asv1 "github.com/pingcap/advanced-statefulset/client/apis/apps/v1"
	appsv1 "k8s.io/api/apps/v1"
	corev1 "k8s.io/api/core/v1"
	"k8s.io/apimachinery/pkg/api/meta"
	"k8s.io/apimachinery/pkg/runtime"

	"verif/harness/simapi"
	"verif/harness/world"
)

// Live engine: real informers (list + watch over simapi), the controller's own queue, 4 real
// workers, kubelet and user actors as goroutines. Built with -race by the race tier.

type liveOutcome struct {
	Viol         map[string][][2]string // property -> (clause, message)
	Inconclusive string
	Calls        int
	Reconciles   int
	Edits        int
	WaitedMs     int64
	Trace        []string
}

func runLiveOnce(seed int64) *liveOutcome {
	out := &liveOutcome{Viol: map[string][][2]string{}}
	bad := func(prop, clause, f string, a ...interface{}) {
		out.Viol[prop] = append(out.Viol[prop], [2]string{clause, fmt.Sprintf(f, a...)})
	}
	r := rand.New(rand.NewSource(seed))
	srv := simapi.New()
	w := world.NewLive(srv)
	stop := make(chan struct{})
	names := []string{"web", "db", "kv"}
	mkSet := func(name string) {
		p := int32(0)
		o := world.SetOpts{Name: name, Replicas: int32(1 + r.Intn(4)), Partition: &p, HistLimit: int32(r.Intn(3)), Labels: map[string]string{"app": name}}
		if r.Intn(2) == 0 {
			o.Policy = asv1.ParallelPodManagement
		}
		if r.Intn(3) == 0 {
			o.Slots = []int32{int32(r.Intn(4))}
		}
		if r.Intn(3) == 0 {
			o.Claims = []string{"data"}
		}
		srv.Seed(simapi.Sets, world.NewSet(o))
		out.Trace = append(out.Trace, fmt.Sprintf("set %s replicas=%d slots=%v policy=%s claims=%v", name, o.Replicas, o.Slots, o.Policy, o.Claims))
	}
	mkSet(names[0])
	mkSet(names[1])
	chaos := r.Intn(2) == 0
	if chaos {
		srv.SetChaos(7 + r.Intn(10)) // every 7th..16th controller call fails while the user is active
		out.Trace = append(out.Trace, "chaos: API calls fail at random while the user is active")
	}
	w.Start(4, stop)
	var kubeletIdle atomic.Bool
	var wg sync.WaitGroup
	done := make(chan struct{})
	// kubelet
	wg.Add(1)
	go func() {
		defer wg.Done()
		kr := rand.New(rand.NewSource(seed + 1))
		for {
			select {
			case <-done:
				return
			default:
			}
			acted := 0
			for _, n := range w.PodNames() {
				if kr.Intn(3) == 0 {
					continue
				}
				if w.Kubelet(n, "progress") {
					acted++
				}
			}
			full := 0
			if acted == 0 {
				for _, n := range w.PodNames() { // nothing skipped by chance?
					if w.Kubelet(n, "progress") {
						full++
					}
				}
			}
			kubeletIdle.Store(acted+full == 0)
			time.Sleep(200 * time.Microsecond)
		}
	}()
	// user
	userDone := make(chan struct{})
	go func() {
		defer close(userDone)
		ur := rand.New(rand.NewSource(seed + 2))
		time.Sleep(time.Millisecond)
		mkSet(names[2])
		n := 15 + ur.Intn(25)
		for i := 0; i < n; i++ {
			set := names[ur.Intn(len(names))]
			switch ur.Intn(8) {
			case 0, 1:
				v := int32(ur.Intn(5))
				w.EditSet(set, func(s *asv1.StatefulSet) { s.Spec.Replicas = world.I32(v) })
				out.Trace = append(out.Trace, fmt.Sprintf("user %s replicas=%d", set, v))
			case 2:
				sl := []int32{int32(ur.Intn(5))}
				if ur.Intn(3) == 0 {
					sl = nil
				}
				w.EditSet(set, func(s *asv1.StatefulSet) { world.SetSlots(s, sl) })
				out.Trace = append(out.Trace, fmt.Sprintf("user %s slots=%v", set, sl))
			case 3:
				v := ur.Intn(4)
				w.EditSet(set, func(s *asv1.StatefulSet) { s.Spec.Template = world.Template(s.Spec.Selector.MatchLabels, v) })
				out.Trace = append(out.Trace, fmt.Sprintf("user %s template=v%d", set, v))
			case 4:
				pz := ur.Intn(2) == 0
				w.EditSet(set, func(s *asv1.StatefulSet) { world.SetPaused(s, pz) })
				out.Trace = append(out.Trace, fmt.Sprintf("user %s paused=%v", set, pz))
			case 5:
				if pods := w.PodNames(); len(pods) > 0 {
					p := pods[ur.Intn(len(pods))]
					w.UserDeletePod(p)
					out.Trace = append(out.Trace, "user deletes pod "+p)
				}
			case 6:
				if pods := w.PodNames(); len(pods) > 0 {
					p := pods[ur.Intn(len(pods))]
					w.Kubelet(p, []string{"fail", "unready"}[ur.Intn(2)])
				}
			case 7:
				pv := int32(ur.Intn(4))
				w.EditSet(set, func(s *asv1.StatefulSet) {
					if s.Spec.UpdateStrategy.RollingUpdate != nil {
						s.Spec.UpdateStrategy.RollingUpdate.Partition = world.I32(pv)
					}
				})
			}
			out.Edits++
			time.Sleep(time.Duration(100+ur.Intn(1500)) * time.Microsecond)
		}
		for _, set := range names {
			w.EditSet(set, func(s *asv1.StatefulSet) { world.SetPaused(s, false) })
		}
	}()
	<-userDone
	srv.SetChaos(0)
	// state-defined quiescence; the wall clock is only a watchdog
	q := w.Ctl.VerifQueue()
	start := time.Now()
	stable, last := 0, -1
	for {
		n := srv.LogLen()
		inBackoff := false
		for _, s := range names {
			if q.NumRequeues(world.NS+"/"+s) > 0 {
				inBackoff = true
			}
		}
		if n == last && q.Len() == 0 && w.LiveQ.InFlight() == 0 && !inBackoff && kubeletIdle.Load() && w.CachesInSync() {
			stable++
		} else {
			stable = 0
		}
		last = n
		if stable >= 150 {
			break
		}
		if time.Since(start) > 40*time.Second {
			out.Inconclusive = fmt.Sprintf("no quiescence within the 40s watchdog (queue len %d, backoff %v, kubelet idle %v, caches in sync %v)", q.Len(), inBackoff, kubeletIdle.Load(), w.CachesInSync())
			break
		}
		time.Sleep(2 * time.Millisecond)
	}
	// a lost wake-up stays lost; an event that is merely still travelling through the informer's
	// listener buffers on a loaded machine does not: before the verdict, sets that look unconverged get
	// a grace period during which any activity restarts the quiescence wait
	if out.Inconclusive == "" {
		graceStart := time.Now()
		for time.Since(graceStart) < 8*time.Second {
			all := true
			snap := srv.Snap()
			for _, name := range names {
				if s := w.GetSet(name); s != nil && world.Converged(snap, s) != "" {
					all = false
				}
			}
			if all {
				break
			}
			time.Sleep(20 * time.Millisecond)
		}
	}
	out.WaitedMs = time.Since(start).Milliseconds()
	close(done)
	wg.Wait()
	close(stop)
	srv.StopWatchers()
	log := srv.Log(0)
	out.Calls = len(log)
	for _, c := range log {
		if c.Res == simapi.Revisions && c.Verb == "list" {
			out.Reconciles++ // 4 per reconcile that got past the pause gate
		}
	}
	out.Reconciles /= 4
	if out.Inconclusive != "" {
		return out
	}
	snap := srv.Snap()
	for _, name := range names {
		s := w.GetSet(name)
		if s == nil {
			continue
		}
		if why := world.Converged(snap, s); why != "" {
			msg := fmt.Sprintf("live run: the system is quiescent (queue empty, no key in back-off, caches equal to the API, kubelet idle) but set %s is not converged: %s", name, why)
			bad("C02", "live-quiescent-not-converged", "%s", msg)
			bad("C16", "live-lost-wakeup", "%s", msg)
		}
		if d := world.Census(snap, s); d != "" {
			bad("C12", "live-census", "live run at quiescence: %s", d)
		}
	}
	uidOf := map[string]string{}
	for _, s := range world.SetsOf(snap) {
		uidOf[s.Name] = string(s.UID)
	}
	for _, c := range log {
		if !c.IsWrite() || c.Actor != "controller" {
			continue
		}
		if c.Res == simapi.PVCs && c.Verb != "create" {
			bad("C06", "claim-rewritten-or-deleted", "live run: %s", c)
		}
		if (c.Res == simapi.Pods || c.Res == simapi.Revisions) && c.Verb != "create" && c.Before != nil {
			bm, _ := meta.Accessor(c.Before)
			if ct := world.ControllerOf(bm); ct != nil {
				// the owner must be one of the sets of this run (each set only writes to its own objects;
				// with disjoint selectors the owner's name identifies the writer)
				if uidOf[ct.Name] != string(ct.UID) {
					bad("C10", "foreign-object-touched", "live run: %s on an object controlled by %s/%s", c, ct.Name, ct.UID)
				}
			}
		}
		if c.Res == simapi.Sets {
			if c.Sub != "status" {
				bad("C10", "set-written-outside-status", "live run: %s", c)
			}
			if o, ok := c.Obj.(*asv1.StatefulSet); ok {
				st := o.Status
				if st.ReadyReplicas < 0 || st.CurrentReplicas < 0 || st.UpdatedReplicas < 0 || st.ReadyReplicas > st.Replicas || st.CurrentReplicas > st.Replicas || st.UpdatedReplicas > st.Replicas {
					bad("C12", "bounds", "live run: status write %+v", st)
				}
			}
		}
	}
	_ = appsv1.StatefulSetRevisionLabel
	_ = corev1.PodRunning
	var _ runtime.Object
	return out
}

func runLive(prop string) func(ctx *Ctx) *Result {
	return func(ctx *Ctx) *Result {
		res := newResult()
		var watchdogNotes []string
		defer func() {
			// inconclusive only if the watchdog took most of the runs away
			if res.Stats["live_runs_stopped_by_watchdog"] > res.Stats["live_runs_quiescent"] {
				res.Inconclusive = append(res.Inconclusive, watchdogNotes...)
			}
		}()
		for i := ctx.Lo; i < ctx.hi(); i++ {
			if !ctx.mine(i) {
				continue
			}
			o := runLiveOnce(ctx.caseSeed(i))
			res.Evaluations++
			res.Stats["live_runs"]++
			res.Stats["live_controller_calls"] += o.Calls
			res.Stats["live_reconciles"] += o.Reconciles
			res.Stats["live_user_edits"] += o.Edits
			res.sig(fmt.Sprint(o.Trace))
			res.sample(1, map[string]interface{}{"live_run_trace": tail(o.Trace, 12), "controller_calls": o.Calls, "reconciles": o.Reconciles})
			if o.Inconclusive != "" {
				// the wall-clock watchdog fired (loaded machine): no verdict from this run, neither way
				res.Stats["live_runs_stopped_by_watchdog"]++
				watchdogNotes = append(watchdogNotes, fmt.Sprintf("live case %d: %s", i, o.Inconclusive))
				continue
			}
			res.Stats["live_runs_quiescent"]++
			for _, v := range o.Viol[prop] {
				res.Violations = append(res.Violations, Witness{Prop: prop, Clause: v[0], Msg: v[1], Family: "live", Case: i, Seed: ctx.Seed, Tier: ctx.Tier, Trace: o.Trace})
			}
		}
		return res
	}
}

// ---------------------------------------------------------------------------
// race reports

var raceFrame = regexp.MustCompile(`(?m)^\s+(\S+)\(.*\)\n\s+(\S+):(\d+)`)

type raceReport struct {
	Key   string
	Text  string
	Repo  bool
	Files []string
}

// parseRaceLogs reads the GORACE log files of the race workers and de-duplicates the reports by
// the pair of outermost repository/harness entry points with line numbers stripped.
func parseRaceLogs(dir string) []raceReport {
	files, _ := filepath.Glob(filepath.Join(dir, "race.*"))
	seen := map[string]bool{}
	var out []raceReport
	for _, f := range files {
		b, err := os.ReadFile(f)
		if err != nil {
			continue
		}
		for _, blk := range strings.Split(string(b), "==================") {
			if !strings.Contains(blk, "WARNING: DATA RACE") {
				continue
			}
			var fns, repoFiles []string
			repo := false
			for _, m := range raceFrame.FindAllStringSubmatch(blk, -1) {
				fn, file := m[1], m[2]
				if strings.Contains(file, "/advanced-statefulset/") || strings.HasPrefix(file, "/repo/") || strings.Contains(fn, "pingcap/advanced-statefulset") {
					repo = true
					repoFiles = append(repoFiles, filepath.Base(file))
					fns = append(fns, fn)
				}
			}
			sort.Strings(fns)
			key := strings.Join(fns, "|")
			if key == "" {
				key = fmt.Sprintf("noframe-%d", len(blk))
			}
			if seen[key] {
				continue
			}
			seen[key] = true
			if len(blk) > 6000 {
				blk = blk[:6000]
			}
			out = append(out, raceReport{Key: key, Text: blk, Repo: repo, Files: repoFiles})
		}
	}
	return out
}

// racePropertyOf attributes a race report with repository frames to the property whose code it is in.
func racePropertyOf(r raceReport) string {
	for _, f := range r.Files {
		if f == "hijack.go" {
			return "C20"
		}
	}
	for _, f := range r.Files {
		if f == "stateful_set.go" {
			return "C16"
		}
	}
	return "C10"
}
