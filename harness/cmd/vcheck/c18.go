package main

import (
	"context"
	"fmt"
	"math"
	"math/rand"

	fuzz "github.com/google/gofuzz"
	asv1 "github.com/pingcap/advanced-statefulset/client/apis/apps/v1"
	"github.com/pingcap/advanced-statefulset/client/apis/apps/v1/helper"
	"github.com/pingcap/advanced-statefulset/pkg/controller/statefulset"
	appsv1 "k8s.io/api/apps/v1"
	corev1 "k8s.io/api/core/v1"
	metav1 "k8s.io/apimachinery/pkg/apis/meta/v1"
	"k8s.io/apimachinery/pkg/runtime"

	"verif/harness/mon"
	"verif/harness/simapi"
	"verif/harness/world"
)

// C18: migration keeps pods running.

func c18TemplateFuzzer(seed int64) *fuzz.Fuzzer {
	f := c19Fuzzer(seed)
	f.Funcs(
		// integers within the range pod validation accepts; one in eight beyond 2^53, where the built-in
		// controller's patch (decoded into float64 and encoded again) records a rounded value: fields such as
		// terminationGracePeriodSeconds and tolerationSeconds have no upper bound, and the Advanced controller
		// has to record the very same bytes
		func(i *int64, c fuzz.Continue) {
			*i = int64(c.Intn(1 << 31))
			if c.Intn(8) == 0 {
				big := []int64{1<<53 + 1, 1<<53 + 3, 1<<60 + 1, 1<<62 + 12345, math.MaxInt64, math.MaxInt64 - 1}
				*i = big[c.Intn(len(big))]
				if c.Intn(2) == 0 {
					*i = 1<<53 + 1 + c.Int63n(1<<62)
				}
			}
		},
	)
	return f
}

func runC18Bytes(ctx *Ctx) *Result {
	res := newResult()
	seen := 0
	for i := ctx.Lo; i < ctx.hi(); i++ {
		if !ctx.mine(i) {
			continue
		}
		f := c18TemplateFuzzer(ctx.caseSeed(i))
		x := &appsv1.StatefulSet{}
		f.Fuzz(&x.Spec.Template)
		x.TypeMeta = metav1.TypeMeta{Kind: "StatefulSet", APIVersion: "apps/v1"}
		x.ObjectMeta = metav1.ObjectMeta{Name: "web", Namespace: world.NS}
		x.Spec.Selector = &metav1.LabelSelector{MatchLabels: map[string]string{"app": "web"}}
		x.Spec.ServiceName = "svc"
		if i%5 == 0 { // also the simple hand-written templates of the other checks
			x.Spec.Template = world.Template(map[string]string{"app": "web"}, i%4)
		}
		ref := builtinPatch(x)
		conv, err := helper.FromBuiltinStatefulSet(x)
		res.Evaluations++
		res.Stats["byte_comparisons"]++
		res.sig(string(ref))
		if err != nil {
			res.Violations = append(res.Violations, Witness{Prop: "C18", Clause: "conversion-error", Msg: err.Error(), Family: "c18bytes", Case: i, Seed: ctx.Seed, Tier: ctx.Tier})
			continue
		}
		ok, err := statefulset.Match(conv, &appsv1.ControllerRevision{Data: runtime.RawExtension{Raw: ref}})
		if err != nil || !ok {
			seen++
			if seen <= 2 {
				res.Violations = append(res.Violations, Witness{Prop: "C18", Clause: "revision-bytes-differ", Msg: fmt.Sprintf("the Advanced controller's revision data for the converted set differs from what the built-in controller records (err=%v)", err),
					Family: "c18bytes", Case: i, Seed: ctx.Seed, Tier: ctx.Tier, Detail: map[string]interface{}{"builtin_revision_data": string(ref)}})
			}
		}
		if len(x.Spec.Template.Spec.Containers) > 0 {
			res.Stats["templates_with_containers"]++
		}
		res.sample(1, map[string]interface{}{"builtin_revision_data": string(ref)})
	}
	return res
}

func runC18Behaviour(ctx *Ctx) *Result {
	res := newResult()
	srv := simapi.New()
	w := world.New(srv)
	seen := map[string]int{}
	for i := ctx.Lo; i < ctx.hi(); i++ {
		if !ctx.mine(i) {
			continue
		}
		r := rand.New(rand.NewSource(ctx.caseSeed(i)))
		bw := genBuiltinWorld(r)
		if len(bw.Versions) == 0 {
			bw.Versions = []int{r.Intn(4)}
		}
		bw.PreAsts = ""
		w.Reset()
		var trace []string
		report := func(clause, msg string) {
			seen[clause]++
			if seen[clause] <= 2 {
				res.Violations = append(res.Violations, Witness{Prop: "C18", Clause: clause, Msg: msg, Family: "c18", Case: i, Seed: ctx.Seed, Tier: ctx.Tier, Trace: append([]string{bw.String()}, tail(trace, 80)...)})
			}
		}
		srv.SetActor("upgrade-helper")
		sts := bw.build(srv)
		interrupted := r.Intn(3) == 0
		if interrupted {
			// the helper dies once somewhere and is re-run
			srv.AddFault(&simapi.Fault{Nth: 1 + r.Intn(8), Kind: "500", Mode: []string{"crash-before", "crash-after", "before", "after"}[r.Intn(4)]})
			res.Stats["migrations_interrupted_once"]++
		}
		ok := false
		for attempt := 1; attempt <= 4 && !ok; attempt++ {
			srv.BeginReconcile(1000 + attempt)
			func() {
				defer func() {
					if p := recover(); p != nil {
						if _, is := p.(simapi.CrashSentinel); !is {
							panic(p)
						}
					}
				}()
				if _, err := helper.Upgrade(context.TODO(), srv.Kube, srv.PC, sts.DeepCopy()); err == nil {
					ok = true
				}
			}()
			srv.EndReconcile()
		}
		srv.ClearFaults()
		srv.SetActor("controller")
		if !ok {
			res.Inconclusive = append(res.Inconclusive, fmt.Sprintf("case %d: Upgrade did not succeed", i))
			continue
		}
		// the garbage collector orphans the dependents of the deleted built-in set in no particular order:
		// in a third of the runs the pods are released first and the controller reconciles in that window
		window := r.Intn(3) == 0
		if window {
			srv.RunGCOn(simapi.Pods)
			res.Stats["migrations_with_gc_window"]++
		} else {
			srv.RunGC()
		}
		res.Evaluations++
		res.Stats["migrations"]++
		if bw.Updated < bw.Replicas {
			res.Stats["migrations_mid_rollout"]++
		}
		res.Stats[fmt.Sprintf("history_length_%d", len(uniqueInts(bw.Versions)))]++
		res.sig(bw.String())
		builtinStatus := sts.Status
		// the set's revisions as the upgrade helper left them (marker label set), by name
		markedBefore := map[string]map[string]string{}
		for _, rev := range world.RevisionsOf(w.Srv.Snap(), world.NS) {
			if rev.Labels[helper.UpgradeToAdvancedStatefulSetAnn] == bw.Name {
				l := map[string]string{}
				for k, v := range rev.Labels {
					l[k] = v
				}
				markedBefore[rev.Name] = l
			}
		}
		for _, res := range []simapi.Res{simapi.Sets, simapi.Pods, simapi.PVCs, simapi.Revisions} {
			w.Relist(res)
		}
		run := world.NewRunner(w, ctx.caseSeed(i), world.DefaultCfg())
		run.Sets = []string{bw.Name}
		scratch := mon.Stats{}
		run.OnRecord = func(rec *world.Record) {
			v := mon.NewView(rec)
			s := fmt.Sprintf("reconcile #%d", rec.ID)
			for _, c := range rec.Calls {
				if c.IsWrite() {
					s += "\n      " + c.String()
				}
				if c.Res == simapi.Revisions && c.Verb == "create" && c.OK() {
					report("revision-created-after-migration", "after the migration the controller created a new ControllerRevision: "+c.String())
				}
				if c.Res == simapi.Pods && c.Verb == "delete" {
					p, _ := c.Before.(*corev1.Pod)
					if p != nil && (p.Labels[appsv1.StatefulSetRevisionLabel] == builtinStatus.UpdateRevision || bw.Updated == bw.Replicas) {
						report("pod-deleted-after-migration", fmt.Sprintf("after the migration the controller deleted pod %s which is at revision %s (built-in update revision %s)", c.Name, p.Labels[appsv1.StatefulSetRevisionLabel], builtinStatus.UpdateRevision))
					}
				}
			}
			if rec.Err != nil {
				s += "\n      => error: " + rec.Err.Error()
			}
			trace = append(trace, s)
			for _, x := range mon.CheckC03(v, scratch) {
				report("unsafe-after-migration", "after the migration: "+x.String())
			}
			for _, x := range mon.CheckC10(v, scratch) {
				report("unsafe-after-migration", "after the migration: "+x.String())
			}
			if rec.Err == nil && rec.Set != nil {
				res.Stats["post_migration_reconciles"]++
			}
		}
		if r.Intn(3) == 0 {
			// the controller's first reconciles after the migration are hit by faults / die mid-way
			for k := 0; k < 3; k++ {
				srv.ClearFaults()
				srv.AddFault(&simapi.Fault{Nth: 1 + r.Intn(9), Kind: "500", Mode: []string{"before", "after", "crash-before", "crash-after"}[r.Intn(4)]})
				w.DeliverAll()
				rec := run.Reconcile(bw.Name)
				if rec.Crash {
					w.DeliverAll()
				}
			}
			srv.ClearFaults()
			res.Stats["migrations_with_faulted_first_reconciles"]++
		}
		if window {
			for k := 0; k < 3; k++ {
				w.DeliverAll()
				run.Reconcile(bw.Name)
			}
			srv.RunGC()
		}
		cr := run.Calm(3)
		if !cr.Converged {
			report("not-converged-after-migration", fmt.Sprintf("the migrated set did not converge: %v", cr.NotConv))
			continue
		}
		a := w.GetSet(bw.Name)
		if a.Status.UpdateRevision != builtinStatus.UpdateRevision {
			report("update-revision-not-the-adopted-one", fmt.Sprintf("status.updateRevision=%q, the built-in controller's update revision was %q", a.Status.UpdateRevision, builtinStatus.UpdateRevision))
		}
		for _, rev := range world.RevisionsOf(w.Srv.Snap(), world.NS) {
			before, wasMarked := markedBefore[rev.Name]
			if !wasMarked {
				continue
			}
			// the label sync adds the template's labels; it takes none away (hash label, marker, anything else)
			for k, v := range before {
				if rev.Labels[k] != v {
					report("label-sync-dropped-a-label", fmt.Sprintf("revision %s lost label %s=%s when it was label-synced and adopted (labels now %v)", rev.Name, k, v, rev.Labels))
				}
			}
			c := world.ControllerOf(rev)
			if c == nil || c.UID != a.UID {
				report("marker-revision-not-adopted", fmt.Sprintf("revision %s carries the upgrade marker but is not controlled by the Advanced set (owner %v)", rev.Name, c))
			}
			for k, v := range a.Spec.Template.Labels {
				if rev.Labels[k] != v {
					report("marker-revision-not-label-synced", fmt.Sprintf("revision %s lacks label %s=%s after adoption", rev.Name, k, v))
				}
			}
			res.Stats["marker_revisions_checked"]++
		}
		for _, p := range world.PodsOf(w.Srv.Snap(), world.NS) {
			if c := world.ControllerOf(p); c == nil || c.UID != a.UID || c.Kind != "StatefulSet" || c.APIVersion != asv1.SchemeGroupVersion.String() {
				report("pod-not-adopted", fmt.Sprintf("pod %s is not controlled by the Advanced set after the migration", p.Name))
			}
		}
		res.sample(2, map[string]interface{}{"world": bw.String(), "post_migration_trace": tail(trace, 6)})
	}
	for k, n := range seen {
		res.Stats["violations_"+k] = n
	}
	return res
}

func uniqueInts(l []int) []int {
	m := map[int]bool{}
	var out []int
	for _, x := range l {
		if !m[x] {
			m[x] = true
			out = append(out, x)
		}
	}
	return out
}

func init() {
	nb := scenarioCases(6000, 100000)
	register(&Check{Prop: "C18", Level: "exploration",
		Rule:   "(bytes) pod templates generated by gofuzz over the whole PodTemplateSpec (integers bounded to the validation range) plus hand-written ones: the data the built-in controller records (upstream getPatch over the apps/v1 object with client-go's codec) is given to the exported Match() with the converted Advanced set - byte equality through the real code; (behaviour) worlds built by a reference built-in controller (history length 1..4 incl. rollbacks, rollout complete or half-way, partitions, selector shapes), real helper.Upgrade (a third of the runs interrupted once and re-run), GC emulation, then the real Advanced controller reconciles to convergence under monitors: no revision create, no delete of an up-to-date pod, update revision = the adopted built-in one, marker revisions label-synced and adopted, pods adopted; distinct = distinct revision data / world",
		Assume: simAssumptions,
		Cases:  func(t string) int { return nb(t) + scenarioCases(1600, 24000)(t) },
		Run:    both(runC18Bytes, nb, runC18Behaviour),
		Floors: []string{"byte_comparisons", "templates_with_containers", "migrations", "migrations_mid_rollout", "migrations_interrupted_once", "marker_revisions_checked", "post_migration_reconciles", "history_length_3", "migrations_with_gc_window", "migrations_with_faulted_first_reconciles"}})
}
