package main

import (
	"fmt"
	"math/rand"

	asv1 "github.com/pingcap/advanced-statefulset/client/apis/apps/v1"
	appsv1 "k8s.io/api/apps/v1"
	corev1 "k8s.io/api/core/v1"
	"k8s.io/apimachinery/pkg/types"

	"verif/harness/mon"
	"verif/harness/simapi"
	"verif/harness/world"
)

// C02: bounded-progress convergence + quiescence; also hosts the C12 census at the fixed point.

func calmFamily(prop string) func(ctx *Ctx) *Result {
	return func(ctx *Ctx) *Result {
		res := newResult()
		srv := simapi.New()
		w := world.New(srv)
		for i := ctx.Lo; i < ctx.hi(); i++ {
			if !ctx.mine(i) {
				continue
			}
			w.Reset()
			cfg := world.DefaultCfg()
			if i%4 == 0 {
				cfg.SlotHeavy = true
			}
			if i%3 == 0 {
				cfg.StepsLo, cfg.StepsHi = 0, 10
			}
			r := world.NewRunner(w, ctx.caseSeed(i), cfg)
			panicked := false
			created := map[types.UID]bool{} // pods the controller itself created in this scenario
			r.OnRecord = func(rec *world.Record) {
				res.Evaluations++
				for _, c := range rec.Calls {
					if c.Res == simapi.Pods && c.Verb == "create" && c.OK() {
						if p, ok := c.After.(*corev1.Pod); ok && p != nil {
							created[p.UID] = true
						}
					}
				}
				if rec.Panic != nil {
					panicked = true
				}
				if prop == "C12" {
					for _, x := range mon.CheckC12(mon.NewView(rec), mon.Stats(res.Stats)) {
						res.Violations = append(res.Violations, Witness{Prop: "C12", Clause: x.Clause, Msg: x.Msg, Family: "calm", Case: i, Seed: ctx.Seed, Tier: ctx.Tier, Trace: tail(r.Trace, 300)})
					}
				}
			}
			var cr *world.CalmResult
			func() {
				defer func() {
					if p := recover(); p != nil {
						res.Inconclusive = append(res.Inconclusive, fmt.Sprintf("case %d: harness panic: %v", i, p))
					}
				}()
				r.Setup()
				r.Hostile()
				cr = r.Calm(5)
			}()
			if panicked {
				res.Inconclusive = append(res.Inconclusive, fmt.Sprintf("case %d: a reconcile panicked", i))
				continue
			}
			if cr == nil {
				continue
			}
			res.Stats["scenarios"]++
			res.Stats["calm_rounds_total"] += cr.Rounds
			if cr.Rounds > res.Stats["calm_rounds_max"] {
				res.Stats["calm_rounds_max"] = cr.Rounds
			}
			if cr.Rounds > 0 {
				res.sig(fmt.Sprint(r.Trace[len(r.Trace)-min(len(r.Trace), 40):]))
				res.Stats["scenarios_needing_calm_work"]++
			}
			wit := func(clause, msg string) {
				res.Violations = append(res.Violations, Witness{Prop: prop, Clause: clause, Msg: msg, Family: "calm", Case: i, Seed: ctx.Seed, Tier: ctx.Tier, Trace: tail(r.Trace, 400)})
			}
			// epilogue (a third of the cases): the very last status write before the system goes quiet fails
			// (plainly, or after a conflict that let the caches catch up); nothing else changes afterwards.
			// The stored status must still end up right: a failed write may not survive in some cache only.
			if cr.Converged && i%3 == 0 && len(r.LiveSets()) > 0 {
				set := r.LiveSets()[0].Name
				var victim string
				for _, p := range world.PodsOf(w.Srv.Snap(), world.NS) {
					if c := world.ControllerOf(p); c != nil && c.UID == r.LiveSets()[0].UID && world.IsHealthy(p) {
						victim = p.Name
					}
				}
				if victim != "" {
					w.Kubelet(victim, "unready")
					w.DeliverAll()
					r.Reconcile(set)
					w.DeliverAll()
					w.Kubelet(victim, "ready")
					w.Deliver(simapi.Pods, -1)
					id := "update|statefulsets|status|" + set
					if i%2 == 0 {
						w.Srv.AddFault(&simapi.Fault{Identity: id, Occ: 0, Kind: "500", Mode: "before"})
					} else {
						w.Srv.AddFault(&simapi.Fault{Identity: id, Occ: 0, Kind: "conflict", Mode: "before"})
						w.Srv.AddFault(&simapi.Fault{Identity: id, Occ: 1, Kind: "500", Mode: "before"})
						w.CatchUp = true
					}
					r.Trace = append(r.Trace, "epilogue: the last status write fails")
					r.Reconcile(set)
					w.CatchUp = false
					w.Srv.ClearFaults()
					res.Stats["epilogues_failed_last_status_write"]++
					cr = r.Calm(3)
				}
			}
			// event-driven epilogue (a quarter of the cases): from the quiet fixed point the user makes one more
			// edit; nothing but the controller's own handlers and queue may bring the set to the new target
			eventDriven := false
			if cr.Converged && i%4 == 1 && len(r.LiveSets()) > 0 && prop == "C02" {
				set := r.LiveSets()[0].Name
				w.DeliverAll()
				w.ResetQueue()
				er := rand.New(rand.NewSource(ctx.caseSeed(i) + 17))
				var what string
				w.EditSet(set, func(s *asv1.StatefulSet) {
					switch er.Intn(4) {
					case 0:
						sl := []int32{int32(er.Intn(4))}
						world.SetSlots(s, sl)
						what = fmt.Sprintf("slots=%v (annotation only)", sl)
					case 1:
						world.SetSlots(s, nil)
						n := int32(er.Intn(5))
						s.Spec.Replicas = world.I32(n)
						what = fmt.Sprintf("slots cleared, replicas=%d", n)
					case 2:
						v := er.Intn(4)
						s.Spec.Template = world.Template(s.Spec.Selector.MatchLabels, v)
						what = fmt.Sprintf("template=v%d", v)
					default:
						n := int32(1 + er.Intn(4))
						s.Spec.Replicas = world.I32(n)
						what = fmt.Sprintf("replicas=%d", n)
					}
				})
				r.Trace = append(r.Trace, "event-driven epilogue: user "+what)
				quiescent, _ := r.EventLoop(800)
				res.Stats["event_driven_epilogues"]++
				eventDriven = true
				snap := w.Srv.Snap()
				if s := w.GetSet(set); s != nil && s.DeletionTimestamp == nil {
					if why := world.Converged(snap, s); why != "" && quiescent {
						res.Violations = append(res.Violations, Witness{Prop: "C02", Clause: "quiescent-not-converged", Msg: fmt.Sprintf("after the edit %q the system went quiet (queue empty, nothing waiting, caches in sync) without converging: %s", what, why),
							Family: "calm", Case: i, Seed: ctx.Seed, Tier: ctx.Tier, Trace: tail(r.Trace, 200)})
					} else if !quiescent {
						res.Violations = append(res.Violations, Witness{Prop: "C02", Clause: "no-quiescence", Msg: fmt.Sprintf("after the edit %q no quiescence within 800 worker steps", what),
							Family: "calm", Case: i, Seed: ctx.Seed, Tier: ctx.Tier, Trace: tail(r.Trace, 200)})
					}
				}
			}
			_ = eventDriven
			if prop == "C02" {
				if !cr.Converged {
					for set, why := range cr.NotConv {
						wit("not-converged", fmt.Sprintf("set %s not converged after %d calm rounds (budget %d): %s", set, cr.Rounds, cr.Budget, why))
						break
					}
					if len(cr.NotConv) == 0 {
						wit("not-converged", fmt.Sprintf("caches never caught up within %d rounds", cr.Rounds))
					}
					continue
				}
				res.Stats["converged"]++
				// "each at the revision its ordinal calls for": a pod the controller built is at the revision its
				// label names only if it also runs that revision's template
				snap := w.Srv.Snap()
				for _, set := range r.LiveSets() {
					for _, p := range world.PodsOf(snap, world.NS) {
						c := world.ControllerOf(p)
						if c == nil || c.UID != set.UID || !created[p.UID] {
							continue
						}
						for _, rev := range world.RevisionsOf(snap, world.NS) {
							if rev.Name != p.Labels[appsv1.StatefulSetRevisionLabel] {
								continue
							}
							res.Stats["converged_pods_compared_with_their_revision"]++
							if t := world.DecodeRevisionTemplate(rev); t != nil && !mon.PodBuiltFrom(p, t) {
								wit("converged-pod-not-at-its-revision", fmt.Sprintf("at the fixed point pod %s carries revision label %s but runs another revision's template", p.Name, rev.Name))
							}
						}
					}
				}
				if len(cr.LateWrites) > 0 {
					wit("write-after-convergence", fmt.Sprintf("%d writes after the converged fixed point, first: %s", len(cr.LateWrites), cr.LateWrites[0]))
				} else {
					res.Stats["quiet_fixed_points"]++
				}
			}
			if prop == "C12" && (cr.Converged || cr.QuietButNotConverged) {
				res.Stats["census_fixed_points_checked"]++
				for _, d := range cr.CensusDiffs {
					wit("census", "at the quiescent fixed point "+d)
				}
			}
			res.sample(2, map[string]interface{}{"case": i, "calm_rounds": cr.Rounds, "budget": cr.Budget, "trace_tail": tail(r.Trace, 12)})
		}
		return res
	}
}

func tail(l []string, n int) []string {
	if len(l) > n {
		l = l[len(l)-n:]
	}
	return append([]string(nil), l...)
}

func init() {
	register(&Check{Prop: "C02", Level: "exploration",
		Rule:   "seeded scenarios: hostile initial population + 0..80 hostile steps (faults, lag, restarts, user edits, strays), then the calm phase (user stops, faults stop, caches catch up, kubelet makes every remaining pod Running+Ready, terminating pods vanish); bounded progress: converged within 10*(pods+replicas)+30 rounds, then 5 more rounds must issue no write; at the fixed point every pod the controller built runs the template of the revision its label names; non-trivial = the calm phase needed at least one round; distinct by trace tail",
		Assume: append([]string{"'eventually' is restated as bounded progress in logical rounds (no finite run decides unbounded liveness)", "premise: pods squatting a name of the set without being claimable are removed by their owners; a Failed/Succeeded pod outside the desired set of an OrderedReady set is restarted; a raised pause flag is lowered; sets being deleted are exempt"}, simAssumptions...),
		Cases:  scenarioCases(3200, 64000), Run: calmFamily("C02"),
		Race: runLive("C02"), RaceCases: scenarioCases(16, 160), Floors: []string{"converged", "quiet_fixed_points", "scenarios_needing_calm_work", "epilogues_failed_last_status_write", "event_driven_epilogues", "converged_pods_compared_with_their_revision"}})
}
