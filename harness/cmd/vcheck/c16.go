package main

import (
	"fmt"
	"sort"
	"strings"

	asv1 "github.com/pingcap/advanced-statefulset/client/apis/apps/v1"
	corev1 "k8s.io/api/core/v1"
	metav1 "k8s.io/apimachinery/pkg/apis/meta/v1"
	"k8s.io/apimachinery/pkg/labels"
	"k8s.io/apimachinery/pkg/types"
	"k8s.io/client-go/tools/cache"

	"verif/harness/simapi"
	"verif/harness/world"
)

// C16: exhaustive event-shape enumeration against the handlers the controller registered,
// observed at the work queue; plus worker bookkeeping on virtual time.

type shapeOwner struct {
	Name string
	Ref  *metav1.OwnerReference
}

type c16Shape struct {
	Kind     string // add update delete tombstone tombstone-nonpod
	OldOwner string
	NewOwner string
	OldMatch bool
	NewMatch bool
	SameRV   bool
	Deleting bool
	Sets     int  // 0,1,2
	SelExpr  bool // the sets select by matchExpressions only
	BadSib   bool // a sibling set with an unparsable (but CRD-admitted) selector lives in the namespace
}

func (s c16Shape) String() string {
	return fmt.Sprintf("%s owner %s->%s labels match %v->%v sameRV=%v deleting=%v sets=%d selector-by-expressions=%v malformed-sibling=%v", s.Kind, s.OldOwner, s.NewOwner, s.OldMatch, s.NewMatch, s.SameRV, s.Deleting, s.Sets, s.SelExpr, s.BadSib)
}

func c16Owners(web, db *asv1.StatefulSet) map[string]*metav1.OwnerReference {
	return map[string]*metav1.OwnerReference{
		"none":        nil,
		"web":         world.SetOwnerRef(web),
		"db":          world.SetOwnerRef(db),
		"stale-uid":   world.OwnerRef(world.SetKind.GroupVersion().String(), "StatefulSet", "web", types.UID("gone")),
		"other-kind":  world.OwnerRef("apps/v1", "ReplicaSet", "web", web.UID),
		"unknown-set": world.OwnerRef(world.SetKind.GroupVersion().String(), "StatefulSet", "nosuch", types.UID("x")),
	}
}

var c16OwnerNames = []string{"none", "web", "db", "stale-uid", "other-kind", "unknown-set"}

func c16Pod(owner *metav1.OwnerReference, match bool, rv string, deleting bool) *corev1.Pod {
	l := map[string]string{"app": "other"}
	if match {
		l = map[string]string{"app": "web"}
	}
	p := &corev1.Pod{ObjectMeta: metav1.ObjectMeta{Name: "web-1", Namespace: world.NS, Labels: l, ResourceVersion: rv, UID: "pod-uid"}}
	if owner != nil {
		p.OwnerReferences = []metav1.OwnerReference{*owner}
	}
	if deleting {
		t := metav1.NewTime(metav1.Unix(1600000000, 0).Time)
		p.DeletionTimestamp = &t
	}
	return p
}

func runC16(ctx *Ctx) *Result {
	res := newResult()
	srv := simapi.New()
	w := world.New(srv)
	seen := map[string]int{}
	report := func(i int, clause, msg string, detail interface{}) {
		seen[clause]++
		if seen[clause] <= 3 {
			res.Violations = append(res.Violations, Witness{Prop: "C16", Clause: clause, Msg: msg, Family: "c16", Case: i, Seed: ctx.Seed, Tier: ctx.Tier, Detail: detail})
		}
	}
	// enumerate shapes
	var shapes []c16Shape
	for _, nsets := range []int{0, 1, 2} {
		for _, kind := range []string{"add", "delete", "tombstone", "tombstone-nonpod"} {
			for _, o := range c16OwnerNames {
				for _, m := range []bool{true, false} {
					for _, d := range []bool{false, true} {
						shapes = append(shapes, c16Shape{Kind: kind, NewOwner: o, OldOwner: o, NewMatch: m, OldMatch: m, Deleting: d, Sets: nsets})
					}
				}
			}
		}
		for _, oo := range c16OwnerNames {
			for _, no := range c16OwnerNames {
				for _, om := range []bool{true, false} {
					for _, nm := range []bool{true, false} {
						for _, rv := range []bool{true, false} {
							for _, d := range []bool{false, true} {
								shapes = append(shapes, c16Shape{Kind: "update", OldOwner: oo, NewOwner: no, OldMatch: om, NewMatch: nm, SameRV: rv, Deleting: d, Sets: nsets})
							}
						}
					}
				}
			}
		}
	}
	// the same space again with sets whose (valid) selector consists of matchExpressions only
	n0 := len(shapes)
	for i := 0; i < n0; i++ {
		if shapes[i].Sets > 0 {
			x := shapes[i]
			x.SelExpr = true
			shapes = append(shapes, x)
		}
	}
	// ... and once more with a malformed sibling set in the namespace (one bad object must not cost the
	// other sets their wake-ups)
	n1 := len(shapes)
	for i := 0; i < n1; i++ {
		if shapes[i].Sets > 0 && !shapes[i].SelExpr {
			x := shapes[i]
			x.BadSib = true
			shapes = append(shapes, x)
		}
	}
	res.Extra["shape_space_size"] = len(shapes)
	for i, sh := range shapes {
		if !ctx.mine(i % ctx.N) {
			continue
		}
		w.Reset()
		web := world.NewSet(world.SetOpts{Name: "web", Replicas: 1})
		web.UID = "uid-web"
		db := world.NewSet(world.SetOpts{Name: "db", Replicas: 1}) // overlapping selector app=web
		db.UID = "uid-db"
		if sh.SelExpr {
			for _, x := range []*asv1.StatefulSet{web, db} {
				x.Spec.Selector = &metav1.LabelSelector{MatchExpressions: []metav1.LabelSelectorRequirement{{Key: "app", Operator: metav1.LabelSelectorOpIn, Values: []string{"web", "web2"}}}}
			}
			res.Stats["shapes_with_expression_selectors"]++
		}
		present := map[string]*asv1.StatefulSet{}
		if sh.Sets >= 1 {
			w.Indexer(simapi.Sets).Add(web)
			present["web"] = web
		}
		if sh.Sets >= 2 {
			w.Indexer(simapi.Sets).Add(db)
			present["db"] = db
		}
		if sh.BadSib {
			bad := world.NewSet(world.SetOpts{Name: "zz-bad", Replicas: 0})
			bad.UID = "uid-bad"
			bad.Spec.Selector = &metav1.LabelSelector{MatchExpressions: []metav1.LabelSelectorRequirement{{Key: "app", Operator: "Bogus"}}}
			w.Indexer(simapi.Sets).Add(bad)
			res.Stats["shapes_with_malformed_sibling"]++
		}
		owners := c16Owners(web, db)
		newRV, oldRV := "10", "9"
		if sh.SameRV {
			oldRV = "10"
		}
		np := c16Pod(owners[sh.NewOwner], sh.NewMatch, newRV, sh.Deleting)
		op := c16Pod(owners[sh.OldOwner], sh.OldMatch, oldRV, false)
		q := w.Q
		for _, h := range w.Handlers(simapi.Pods) {
			switch sh.Kind {
			case "add":
				h.OnAdd(np, false)
			case "update":
				h.OnUpdate(op, np)
			case "delete":
				h.OnDelete(np)
			case "tombstone":
				h.OnDelete(cache.DeletedFinalStateUnknown{Key: world.NS + "/web-1", Obj: np})
			case "tombstone-nonpod":
				h.OnDelete(cache.DeletedFinalStateUnknown{Key: world.NS + "/web-1", Obj: web})
			}
		}
		enq := map[string]bool{}
		for _, op := range q.Ops {
			if op.Op == "add" || op.Op == "addRateLimited" || op.Op == "addAfter" {
				enq[op.Item] = true
			}
		}
		res.Evaluations++
		res.Stats["pod_event_shapes"]++
		res.Stats["shape_kind_"+sh.Kind]++
		// reference model
		resolve := func(name string) string { // which present set a controller reference resolves to
			switch name {
			case "web", "db":
				if present[name] != nil {
					return world.NS + "/" + name
				}
			}
			return ""
		}
		matching := func(match bool) []string {
			var out []string
			if !match {
				return nil
			}
			for n := range present {
				out = append(out, world.NS+"/"+n)
			}
			return out
		}
		required, allowed := map[string]bool{}, map[string]bool{}
		addAll := func(m map[string]bool, l ...string) {
			for _, x := range l {
				if x != "" {
					m[x] = true
				}
			}
		}
		newOrphan, oldOrphan := sh.NewOwner == "none", sh.OldOwner == "none"
		switch sh.Kind {
		case "add":
			if sh.Deleting {
				addAll(required, resolve(sh.NewOwner)) // observed as a deletion
			} else if !newOrphan {
				addAll(required, resolve(sh.NewOwner))
			} else {
				addAll(required, matching(sh.NewMatch)...)
			}
			addAll(allowed, resolve(sh.NewOwner))
			if newOrphan {
				addAll(allowed, matching(sh.NewMatch)...)
			}
		case "delete", "tombstone":
			addAll(required, resolve(sh.NewOwner))
			addAll(allowed, resolve(sh.NewOwner))
			if newOrphan {
				addAll(allowed, matching(sh.NewMatch)...)
			}
		case "update":
			addAll(allowed, resolve(sh.NewOwner), resolve(sh.OldOwner))
			if newOrphan {
				addAll(allowed, matching(sh.NewMatch)...)
			}
			if oldOrphan {
				addAll(allowed, matching(sh.OldMatch)...)
			}
			if !sh.SameRV {
				addAll(required, resolve(sh.NewOwner))
				if sh.OldOwner != sh.NewOwner {
					addAll(required, resolve(sh.OldOwner))
				}
				if newOrphan && (sh.OldMatch != sh.NewMatch || sh.OldOwner != sh.NewOwner) {
					addAll(required, matching(sh.NewMatch)...)
				}
			}
		}
		if len(required) > 0 {
			res.sig(sh.String())
			res.Stats["shapes_with_required_wakeups"]++
		}
		for k := range required {
			if !enq[k] {
				report(i, "lost-wakeup", fmt.Sprintf("event {%s}: set %s must be enqueued but the queue got %v", sh, k, keysOf(enq)), nil)
			}
		}
		for k := range enq {
			if !allowed[k] {
				report(i, "spurious-wakeup", fmt.Sprintf("event {%s}: %s enqueued although the pod neither belongs to it nor matches it", sh, k), nil)
			}
		}
		res.sample(3, map[string]interface{}{"shape": sh.String(), "required": keysOf(required), "enqueued": keysOf(enq)})
	}
	if ctx.mine(0) {
		c16Sequences(ctx, res, w, report)
		c16SetEvents(ctx, res, w, report)
		c16Worker(ctx, res, w, report)
		c16WorkerRich(ctx, res, w, report)
	}
	for k, n := range seen {
		res.Stats["violations_"+k] = n
	}
	return res
}

func keysOf(m map[string]bool) []string {
	var l []string
	for k := range m {
		l = append(l, k)
	}
	sort.Strings(l)
	return l
}

// c16Sequences: event sequences in which what a handler may remember from an earlier event has gone
// stale: the set's selector (which this CRD does not make immutable) changes between two orphan events,
// a set is deleted and re-created with another selector / UID.
func c16Sequences(ctx *Ctx, res *Result, w *world.World, report func(int, string, string, interface{})) {
	mkSet := func(uid string, lbl string) *asv1.StatefulSet {
		s := world.NewSet(world.SetOpts{Name: "web", Replicas: 1, Labels: map[string]string{"app": lbl}})
		s.UID = types.UID(uid)
		return s
	}
	orphan := func(lbl string, rv string) *corev1.Pod {
		return &corev1.Pod{ObjectMeta: metav1.ObjectMeta{Name: "web-3", Namespace: world.NS, Labels: map[string]string{"app": lbl}, ResourceVersion: rv, UID: "p"}}
	}
	key := world.NS + "/web"
	enqueued := func(f func(h cache.ResourceEventHandler)) bool {
		before := len(w.Q.Ops)
		for _, h := range w.Handlers(simapi.Pods) {
			f(h)
		}
		for _, op := range w.Q.Ops[before:] {
			if op.Op == "add" && op.Item == key {
				return true
			}
		}
		return false
	}
	for _, variant := range []string{"selector-updated", "set-recreated"} {
		w.Reset()
		idx := w.Indexer(simapi.Sets)
		old := mkSet("uid-1", "a")
		idx.Add(old)
		// an orphan event under the old selector (lets a handler remember whatever it likes)
		if !enqueued(func(h cache.ResourceEventHandler) { h.OnAdd(orphan("a", "1"), false) }) {
			report(-1, "lost-wakeup", "sequence "+variant+": orphan matching the set's selector did not enqueue it", nil)
		}
		neu := mkSet("uid-1", "b")
		if variant == "set-recreated" {
			neu = mkSet("uid-2", "b")
			idx.Delete(old)
			for _, h := range w.Handlers(simapi.Sets) {
				h.OnDelete(old)
			}
			idx.Add(neu)
			for _, h := range w.Handlers(simapi.Sets) {
				h.OnAdd(neu, false)
			}
		} else {
			idx.Update(neu)
			for _, h := range w.Handlers(simapi.Sets) {
				h.OnUpdate(old, neu)
			}
		}
		res.Evaluations += 2
		res.Stats["event_sequences"]++
		res.sig("seq/" + variant)
		if !enqueued(func(h cache.ResourceEventHandler) { h.OnAdd(orphan("b", "2"), false) }) {
			report(-1, "lost-wakeup", "sequence "+variant+": after the set's selector became app=b an orphan labelled app=b did not enqueue the set", nil)
		}
		if enqueued(func(h cache.ResourceEventHandler) { h.OnAdd(orphan("a", "3"), false) }) {
			report(-1, "spurious-wakeup", "sequence "+variant+": after the set's selector became app=b an orphan labelled app=a still enqueued the set", nil)
		}
		if !enqueued(func(h cache.ResourceEventHandler) { h.OnUpdate(orphan("a", "4"), orphan("b", "5")) }) {
			report(-1, "lost-wakeup", "sequence "+variant+": an orphan relabelled to app=b did not enqueue the set", nil)
		}
	}
}

func c16SetEvents(ctx *Ctx, res *Result, w *world.World, report func(int, string, string, interface{})) {
	mk := func(mut func(*asv1.StatefulSet)) *asv1.StatefulSet {
		s := world.NewSet(world.SetOpts{Name: "web", Replicas: 2})
		s.UID, s.ResourceVersion, s.Generation = "uid-web", "5", 1
		if mut != nil {
			mut(s)
		}
		return s
	}
	changes := map[string]func(*asv1.StatefulSet){
		"nothing (resync)": nil,
		"replicas":         func(s *asv1.StatefulSet) { s.Spec.Replicas = world.I32(3); s.Generation = 2 },
		"delete-slots":     func(s *asv1.StatefulSet) { world.SetSlots(s, []int32{1}) },
		"pause annotation": func(s *asv1.StatefulSet) { world.SetPaused(s, true) },
		"labels only":      func(s *asv1.StatefulSet) { s.Labels = map[string]string{"x": "y"} },
		"status only":      func(s *asv1.StatefulSet) { s.Status.ReadyReplicas = 1 },
		"template": func(s *asv1.StatefulSet) {
			s.Spec.Template = world.Template(map[string]string{"app": "web"}, 2)
			s.Generation = 2
		},
		"deletionTimestamp": func(s *asv1.StatefulSet) { t := metav1.Now(); s.DeletionTimestamp = &t },
		"finalizers":        func(s *asv1.StatefulSet) { s.Finalizers = []string{"x"} },
	}
	names := make([]string, 0, len(changes))
	for k := range changes {
		names = append(names, k)
	}
	sort.Strings(names)
	key := world.NS + "/web"
	fire := func(what string, f func(h cache.ResourceEventHandler)) {
		w.Reset()
		for _, h := range w.Handlers(simapi.Sets) {
			f(h)
		}
		res.Evaluations++
		res.Stats["set_event_shapes"]++
		got := false
		for _, op := range w.Q.Ops {
			if op.Op == "add" && op.Item == key {
				got = true
			}
		}
		res.sig("set/" + what)
		if !got {
			report(-1, "set-change-not-enqueued", fmt.Sprintf("set event %q did not enqueue %s (queue ops %v)", what, key, w.Q.Ops), nil)
		}
	}
	fire("add", func(h cache.ResourceEventHandler) { h.OnAdd(mk(nil), false) })
	fire("add in initial list", func(h cache.ResourceEventHandler) { h.OnAdd(mk(nil), true) })
	fire("delete", func(h cache.ResourceEventHandler) { h.OnDelete(mk(nil)) })
	fire("delete tombstone", func(h cache.ResourceEventHandler) { h.OnDelete(cache.DeletedFinalStateUnknown{Key: key, Obj: mk(nil)}) })
	for _, n := range names {
		n := n
		fire("update: "+n, func(h cache.ResourceEventHandler) {
			nw := mk(changes[n])
			nw.ResourceVersion = "6"
			h.OnUpdate(mk(nil), nw)
		})
		// and the change undone (e.g. paused -> un-paused as the only difference)
		fire("update back: "+n, func(h cache.ResourceEventHandler) {
			nw := mk(nil)
			nw.ResourceVersion = "7"
			h.OnUpdate(mk(changes[n]), nw)
		})
	}
}

// c16Worker: a reconcile that fails is put back with back-off, one that succeeds clears it.
func c16Worker(ctx *Ctx, res *Result, w *world.World, report func(int, string, string, interface{})) {
	key := world.NS + "/web"
	for _, k := range []int{0, 1, 2, 5, 17, 24} {
		w.Reset()
		p := int32(0)
		w.Srv.Seed(simapi.Sets, world.NewSet(world.SetOpts{Name: "web", Replicas: 1, Partition: &p, HistLimit: 2}))
		w.DeliverAll() // the set's add event enqueues the key through the real handler
		if w.Q.Len() != 1 {
			report(-1, "set-change-not-enqueued", fmt.Sprintf("delivering the set's add event left the queue with %d items", w.Q.Len()), nil)
			continue
		}
		fails := 0
		var trace []string
		for step := 0; step < k+40; step++ {
			if w.Q.Len() == 0 {
				if at, ok := w.Q.NextReady(); ok {
					w.Q.Advance(at)
					trace = append(trace, fmt.Sprintf("virtual time -> %v", at))
				}
			}
			if w.Q.Len() == 0 {
				break
			}
			w.Srv.ClearFaults()
			failing := fails < k
			if failing {
				w.Srv.AddFault(&simapi.Fault{Nth: 1 + fails%3, Kind: "500", Mode: "before"})
			}
			rec := w.WorkerStep()
			res.Evaluations++
			res.Stats["worker_steps"]++
			var ops []string
			for _, op := range rec.QOps {
				ops = append(ops, op.Op)
			}
			trace = append(trace, fmt.Sprintf("worker step (inject failure=%v): queue ops %v, NumRequeues=%d", failing, ops, w.Q.NumRequeues(key)))
			has := func(op string) bool { return strings.Contains(" "+strings.Join(ops, " ")+" ", " "+op+" ") }
			if !has("get") || !has("done") {
				report(-1, "worker-get-done", fmt.Sprintf("worker step did not Get and Done the key: %v", ops), trace)
			}
			if failing {
				fails++
				res.Stats["failed_reconciles_through_worker"]++
				if !has("addRateLimited") {
					report(-1, "failure-not-requeued", fmt.Sprintf("failed reconcile #%d was not put back with back-off (queue ops %v)", fails, ops), trace)
				}
				if has("forget") {
					report(-1, "failure-forgotten", fmt.Sprintf("failed reconcile #%d cleared the back-off (queue ops %v)", fails, ops), trace)
				}
				if n := w.Q.NumRequeues(key); n != fails {
					report(-1, "backoff-count", fmt.Sprintf("after %d consecutive failures NumRequeues=%d", fails, n), trace)
				}
				if len(w.Q.Delayed()) == 0 && w.Q.Len() == 0 {
					report(-1, "failure-not-requeued", fmt.Sprintf("after failed reconcile #%d the key is neither queued nor waiting for its back-off: nothing will retry it", fails), trace)
				}
			} else {
				res.Stats["successful_reconciles_through_worker"]++
				if !has("forget") || w.Q.NumRequeues(key) != 0 {
					report(-1, "success-keeps-backoff", fmt.Sprintf("successful reconcile left NumRequeues=%d (queue ops %v)", w.Q.NumRequeues(key), ops), trace)
				}
				if has("addRateLimited") {
					report(-1, "success-requeued-with-backoff", fmt.Sprintf("successful reconcile was put back with back-off: %v", ops), trace)
				}
			}
			// events caused by the reconcile's own writes re-enqueue the key through the real handlers
			w.DeliverAll()
			for _, n := range w.PodNames() {
				w.Kubelet(n, "settle")
			}
			w.DeliverAll()
		}
		if fails < k {
			report(-1, "failure-not-requeued", fmt.Sprintf("planned %d consecutive failures but the key stopped being processed after %d: a failed reconcile was dropped", k, fails), trace)
		}
		res.sig(fmt.Sprintf("worker/%d", k))
		res.sample(4, map[string]interface{}{"worker_failures_then_success": k, "trace_tail": tail(trace, 6)})
		// converged in the end?
		if s := w.GetSet("web"); s != nil {
			if why := world.Converged(w.Srv.Snap(), s); why != "" && w.Q.Idle() {
				report(-1, "quiescent-but-not-converged", fmt.Sprintf("after %d failures and recovery the queue is idle but the set is not converged: %s", k, why), trace)
			}
		}
	}
	_ = labels.Everything
}

// c16WorkerRich: "a reconcile that fails is put back with back-off" observed at the queue for reconciles
// that do real work (adoption, release, identity update, creates with claims, deletes, rollback renumbering,
// history truncation, status): every API call of the reconcile in turn is answered with a 500 through the
// real worker; the key must come back through AddRateLimited and must not be Forgotten.
func c16WorkerRich(ctx *Ctx, res *Result, w *world.World, report func(int, string, string, interface{})) {
	for _, e := range c09Directed() {
		dry := c16RichStep(w, ctx.Seed, e, 0)
		ncalls := 0
		for _, c := range dry.Calls {
			if c.Res != simapi.Events {
				ncalls++
			}
		}
		for j := 1; j <= ncalls; j++ {
			rec := c16RichStep(w, ctx.Seed, e, j)
			var fired *simapi.Call
			for _, c := range rec.Calls {
				if c.Injected != "" {
					fired = c
				}
			}
			if fired == nil {
				continue
			}
			res.Evaluations++
			res.Stats["failed_working_reconciles_through_worker"]++
			res.sig(fmt.Sprintf("rich/%s/%s", e.Name, fired.Identity()))
			var ops []string
			for _, op := range rec.QOps {
				ops = append(ops, op.Op)
			}
			has := func(op string) bool { return strings.Contains(" "+strings.Join(ops, " ")+" ", " "+op+" ") }
			absorbed := false
			for _, c := range rec.Calls {
				if c.Seq > fired.Seq && c.Identity() == fired.Identity() && c.OK() {
					absorbed = true
				}
			}
			if absorbed {
				continue
			}
			if !has("addRateLimited") || has("forget") {
				report(-1, "failure-not-requeued", fmt.Sprintf("scenario %q: %s was answered with a 500 but the worker did not put the key back with back-off (queue ops %v): nothing will retry the work", e.Name, fired.Identity(), ops), nil)
			}
		}
	}
}

func c16RichStep(w *world.World, seed int64, e c09Entry, nth int) *world.Record {
	w.ResetLight()
	r := world.NewRunner(w, seed, world.DefaultCfg())
	target := e.Build(r)
	w.Srv.RunGC()
	w.DeliverAll()
	w.ResetQueue(world.NS + "/" + target)
	w.Srv.ClearFaults()
	if nth > 0 {
		w.Srv.AddFault(&simapi.Fault{Nth: nth, Kind: "500", Mode: "before"})
	}
	rec := w.WorkerStep()
	w.Srv.ClearFaults()
	return rec
}

func init() {
	register(&Check{Prop: "C16", Level: "exploration", Exhaustive: true,
		Rule:   "exhaustive over event shapes: kind {add, update, delete, tombstone, tombstone of a non-pod} x owner reference {none, this set, overlapping set, stale UID, other kind, unknown set} (old x new for updates) x label match (old x new) x resourceVersion equal/different x deletionTimestamp x sets present {0, 1, 2 with overlapping selectors} x selector by matchLabels / by matchExpressions only, delivered to the handlers the controller itself registered (captured at AddEventHandler) and observed at the work queue: required ⊆ enqueued ⊆ allowed per a reference model written from the statement; set events: add / delete / tombstone / 9 kinds of update; worker bookkeeping: k in {0,1,2,5,17,24} injected consecutive failures then success through the real processNextWorkItem on a virtual-time queue (NumRequeues counts up, key waits for its back-off, Forget on success), and every API call of 14 working reconciles (adoption, release, creates with claims, deletes, renumbering, truncation, status) answered in turn with a 500 through the real worker (AddRateLimited, no Forget); non-trivial = shapes with a required wake-up",
		Assume: []string{"the work queue is the harness' deterministic virtual-time implementation of workqueue.RateLimitingInterface; the property is about the controller's calls on it", "the sets an event is about have valid selectors; a sibling with an unparsable selector may be present"},
		Cases:  func(string) int { return 16 }, Run: runC16,
		Race: runLive("C16"), RaceCases: scenarioCases(16, 160),
		Floors: []string{"pod_event_shapes", "shapes_with_required_wakeups", "shapes_with_expression_selectors", "shapes_with_malformed_sibling", "event_sequences", "set_event_shapes", "failed_reconciles_through_worker", "successful_reconciles_through_worker", "failed_working_reconciles_through_worker"}})
}
