package main

import (
	"encoding/json"
	"fmt"
	"math"
	"math/rand"
	"os"
	"path/filepath"
	"runtime/debug"
	"strconv"
	"strings"

	asv1 "github.com/pingcap/advanced-statefulset/client/apis/apps/v1"
	appsv1 "k8s.io/api/apps/v1"
	corev1 "k8s.io/api/core/v1"
	metav1 "k8s.io/apimachinery/pkg/apis/meta/v1"
	"k8s.io/apimachinery/pkg/runtime"

	"verif/harness/mon"
	"verif/harness/refspec"
	"verif/harness/simapi"
	"verif/harness/world"
)

// C15: no CRD-admitted object panics a reconcile.

func repoDir() string {
	if d := os.Getenv("VERIF_REPO"); d != "" {
		return d
	}
	return "/repo"
}

type j = map[string]interface{}

func pickI(r *rand.Rand, l []interface{}) interface{} { return l[r.Intn(len(l))] }

var absent = struct{}{}

func genC15Object(r *rand.Rand, st map[string]int) j {
	spec := j{}
	set := func(m j, k string, choices ...interface{}) {
		v := pickI(r, choices)
		if v == absent {
			st["field_"+k+"_absent"]++
			return
		}
		st["field_"+k+"_present"]++
		m[k] = v
	}
	labels := j{"app": "web"}
	set(spec, "replicas", absent, 0, 1, 2, 3, 4, 5)
	set(spec, "selector", j{}, j{"matchLabels": labels}, j{"matchLabels": labels}, j{"matchLabels": labels},
		j{"matchExpressions": []interface{}{j{"key": "app", "operator": "In", "values": []interface{}{"web"}}}},
		j{"matchExpressions": []interface{}{j{"key": "app", "operator": "Bogus"}}},
		j{"matchLabels": j{"app": "not a valid value!"}},
		j{"matchLabels": nil})
	tmplFull := j{"metadata": j{"labels": labels}, "spec": j{"containers": []interface{}{j{"name": "c", "image": "img:v0"}}}}
	set(spec, "template", j{}, j{"metadata": j{}}, j{"metadata": j{"labels": labels}}, tmplFull, tmplFull, tmplFull,
		j{"metadata": j{"labels": labels, "annotations": nil, "finalizers": []interface{}{"x/y"}}, "spec": j{"containers": nil, "volumes": []interface{}{j{"name": "data"}}}})
	set(spec, "serviceName", "", "svc")
	set(spec, "podManagementPolicy", absent, "OrderedReady", "Parallel", "Bogus", "")
	part := func(v interface{}) j { return j{"type": "RollingUpdate", "rollingUpdate": j{"partition": v}} }
	set(spec, "updateStrategy", absent, j{}, j{"type": "RollingUpdate"}, j{"type": "RollingUpdate", "rollingUpdate": j{}},
		j{"rollingUpdate": j{}}, j{"rollingUpdate": j{"partition": 1}}, j{"type": "RollingUpdate", "rollingUpdate": nil},
		part(-5), part(-1), part(0), part(1), part(3), part(100), part(2147483647), part(-2147483648),
		j{"type": "OnDelete"}, j{"type": "OnDelete", "rollingUpdate": j{"partition": 2}}, j{"type": "OnDelete", "rollingUpdate": j{}}, j{"type": "Bogus"}, j{"type": "Bogus", "rollingUpdate": j{}}, j{"type": ""})
	set(spec, "revisionHistoryLimit", absent, 0, 1, 10)
	set(spec, "volumeClaimTemplates", absent, absent, []interface{}{}, []interface{}{j{}}, []interface{}{j{"metadata": j{"name": "data"}}},
		[]interface{}{j{"metadata": j{"name": "data", "labels": j{"x": "y"}}}, j{"metadata": j{"name": "data"}}},
		[]interface{}{j{"metadata": j{"name": "scratch"}, "spec": j{}}})
	ann := j{}
	switch r.Intn(8) {
	case 0:
		ann["delete-slots"] = pickI(r, []interface{}{"", "[", "null", "[null]", "{}", "[1.5]", "\"x\"", "[\"1\"]"})
		st["annotation_slots_malformed"]++
	case 1:
		ann["delete-slots"] = pickI(r, []interface{}{"[-1]", "[-2147483648]", "[2147483647]", "[2147483648]", "[0,-1,2147483647]", "[9999999999999999999999]"})
		st["annotation_slots_out_of_range"]++
	case 2, 3:
		ann["delete-slots"] = pickI(r, []interface{}{"[0]", "[1,2]", "[0,1,2,3,4,5,6,7]", "[3,3,3]", "[7]"})
		st["annotation_slots_wellformed"]++
	}
	switch r.Intn(8) {
	case 0:
		ann["paused-reconcile"] = pickI(r, []interface{}{"TRUE", "yes", "", "false", "1"})
		st["annotation_pause_odd"]++
	}
	meta := j{"name": "web", "namespace": world.NS}
	if len(ann) > 0 {
		meta["annotations"] = ann
	}
	obj := j{"apiVersion": "apps.pingcap.com/v1", "kind": "StatefulSet", "metadata": meta, "spec": spec}
	if r.Intn(40) == 0 {
		// nothing in the shipped schema makes spec itself required: an object without any spec is admitted
		// (and, having no spec, receives none of the defaults)
		delete(obj, "spec")
		st["objects_without_spec"]++
	}
	switch r.Intn(6) {
	case 0:
		obj["status"] = j{}
	case 1:
		obj["status"] = j{"replicas": 3, "currentRevision": "web-nonexistent", "updateRevision": "web-other", "collisionCount": nil, "currentReplicas": -3, "observedGeneration": 99}
		st["status_hostile"]++
	case 2:
		obj["status"] = j{"replicas": 0, "collisionCount": 2147483647, "conditions": []interface{}{j{}}, "unknownField": j{"a": 1}}
		st["status_hostile"]++
	}
	return obj
}

type c15Case struct {
	Index     int      `json:"case"`
	Object    j        `json:"object_as_submitted"`
	Defaulted string   `json:"client_side_defaulting"`
	Pods      []string `json:"pods"`
}

func runC15(ctx *Ctx) *Result {
	res := newResult()
	crd, err := refspec.LoadCRD(filepath.Join(repoDir(), "manifests/crd.v1.yaml"))
	if err != nil {
		res.Inconclusive = append(res.Inconclusive, "cannot load the CRD: "+err.Error())
		return res
	}
	srv := simapi.New()
	w := world.New(srv)
	perCase := 6
	reported := map[string]bool{}
	for i := ctx.Lo; i < ctx.hi(); i++ {
		if !ctx.mine(i) {
			continue
		}
		r := rand.New(rand.NewSource(ctx.caseSeed(i)))
		obj := genC15Object(r, res.Stats)
		raw, _ := json.Marshal(obj)
		var admitted j
		json.Unmarshal(raw, &admitted)
		if err := crd.Admit(admitted); err != nil {
			res.Stats["generated_but_rejected_by_crd"]++
			continue
		}
		b, _ := json.Marshal(admitted)
		set := &asv1.StatefulSet{}
		if err := json.Unmarshal(b, set); err != nil {
			res.Stats["admitted_but_undecodable_into_go_type"]++
			continue
		}
		c := c15Case{Index: i, Object: obj, Defaulted: "none"}
		switch r.Intn(3) {
		case 1:
			asv1.SetObjectDefaults_StatefulSet(set)
			c.Defaulted = "SetObjectDefaults_StatefulSet"
			res.Stats["with_client_side_defaulting"]++
		default:
			res.Stats["without_client_side_defaulting"]++
		}
		if set.Spec.UpdateStrategy.RollingUpdate != nil && set.Spec.UpdateStrategy.RollingUpdate.Partition == nil {
			res.Stats["reconciled_with_nil_partition"]++
		}
		if ru := set.Spec.UpdateStrategy.RollingUpdate; ru != nil && ru.Partition != nil && *ru.Partition < 0 {
			res.Stats["reconciled_with_negative_partition"]++
		}
		w.ResetLight()
		set.UID = ""
		stored := w.Srv.Seed(simapi.Sets, set).(*asv1.StatefulSet)
		// pod / revision population
		density := r.Float64()
		for ord := 0; ord <= 9; ord++ {
			if r.Float64() > density {
				continue
			}
			po := world.PodOpts{Name: fmt.Sprintf("web-%d", ord), Labels: map[string]string{"app": "web"}, SetName: "web", Ordinal: ord,
				Phase:     []corev1.PodPhase{corev1.PodPending, corev1.PodRunning, corev1.PodRunning, corev1.PodFailed, corev1.PodSucceeded, ""}[r.Intn(6)],
				Scheduled: r.Intn(4) > 0, Ready: r.Intn(2) == 0, Terminating: r.Intn(8) == 0, Revision: []string{"", "web-x", "web-nonexistent"}[r.Intn(3)]}
			if r.Intn(5) > 0 {
				po.Owner = world.SetOwnerRef(stored)
			}
			if r.Intn(5) > 0 {
				po.PodNameLbl = po.Name
			}
			w.Srv.Seed(simapi.Pods, world.NewPod(po))
			c.Pods = append(c.Pods, fmt.Sprintf("%s/%s", po.Name, po.Phase))
		}
		if ctx.CurFile != "" {
			cb, _ := json.Marshal(c)
			os.WriteFile(ctx.CurFile, cb, 0o644)
		}
		// the informer's event handlers run on a goroutine nobody recovers: a panic there takes the whole
		// controller down, so every delivery (add / update / delete of the object and of its pods) is watched too
		deliver := func(what string) bool {
			var p interface{}
			var stack string
			func() {
				defer func() {
					if p = recover(); p != nil {
						stack = string(debug.Stack())
					}
				}()
				w.DeliverAll()
			}()
			res.Stats["handler_deliveries_watched"]++
			if p == nil {
				return true
			}
			res.Stats["panics"]++
			if !reported["h:"+fmt.Sprint(p)] && len(reported) < 6 {
				reported["h:"+fmt.Sprint(p)] = true
				res.Violations = append(res.Violations, Witness{Prop: "C15", Clause: "event-handler-panicked", Msg: fmt.Sprintf("an event handler panicked on the %s event of a CRD-admitted object: %v", what, p),
					Family: "c15", Case: i, Seed: ctx.Seed, Tier: ctx.Tier, Detail: j{"input": c, "stack": stack}})
			}
			return false
		}
		// pods at the far ends of the ordinal range (and just outside what parses as an ordinal)
		if r.Intn(5) == 0 {
			for k := 0; k < 1+r.Intn(2); k++ {
				name := []string{"web-2147483647", "web-2147483646", "web-2147483648", "web-4294967296", "web-99999999999999999999", "web-00", "web-007", "web--1", "web-1-2"}[r.Intn(9)]
				if w.GetPod(name) != nil {
					continue
				}
				po := world.PodOpts{Name: name, Labels: map[string]string{"app": "web"}, SetName: "web", Ordinal: 0,
					Phase:     []corev1.PodPhase{corev1.PodPending, corev1.PodRunning, corev1.PodRunning, corev1.PodFailed, ""}[r.Intn(5)],
					Scheduled: r.Intn(4) > 0, Ready: r.Intn(2) == 0, Terminating: r.Intn(8) == 0, PodNameLbl: name}
				if r.Intn(3) > 0 {
					po.Owner = world.SetOwnerRef(stored)
				}
				w.Srv.Seed(simapi.Pods, world.NewPod(po))
				c.Pods = append(c.Pods, fmt.Sprintf("%s/%s", po.Name, po.Phase))
				res.Stats["populations_with_extreme_ordinals"]++
			}
		}
		// ControllerRevisions nobody vouches for (the API admits any JSON value, or none, as data): selected by
		// app=web, orphaned or owned by the set, numbered below, between and above the set's own revisions.
		// Decided by the case index, so the rest of the generated input is what it was without them.
		if i%4 == 0 {
			shapes := []string{"", "{}", "null", `{"spec":{}}`, "[]", `"x"`, "7", `{"spec":{"template":{"$patch":"replace"}}}`}
			for k := 0; k < 1+(i/4)%2; k++ {
				raw := shapes[(i/8+3*k)%len(shapes)]
				rev := &appsv1.ControllerRevision{ObjectMeta: metav1.ObjectMeta{Name: fmt.Sprintf("web-junk-%d", k), Namespace: world.NS, Labels: map[string]string{"app": "web"}},
					Revision: []int64{0, 1, 7, math.MaxInt64, -3, 2}[(i/4+k)%6]}
				if raw != "" {
					rev.Data = runtime.RawExtension{Raw: []byte(raw)}
				}
				if (i/4)%3 == 0 {
					rev.OwnerReferences = []metav1.OwnerReference{*world.SetOwnerRef(stored)}
				}
				w.Srv.Seed(simapi.Revisions, rev)
				c.Pods = append(c.Pods, fmt.Sprintf("revision %s data=%q number=%d owned=%v", rev.Name, raw, rev.Revision, rev.OwnerReferences != nil))
				res.Stats["populations_with_junk_revisions"]++
			}
		}
		if !deliver("add") {
			continue
		}
		res.sig(string(b) + fmt.Sprint(c.Pods))
		res.sample(3, c)
		for k := 0; k < perCase; k++ {
			if k == 1 {
				// somebody touches the object (metadata only): an update event with this object as old and new
				w.EditSet("web", func(s *asv1.StatefulSet) {
					if s.Labels == nil {
						s.Labels = map[string]string{}
					}
					s.Labels["touched"] = "yes"
				})
				res.Stats["set_update_events_delivered"]++
				if !deliver("update") {
					break
				}
			}
			rec := w.Reconcile(world.NS + "/web")
			res.Evaluations++
			if rec.Panic != nil {
				clause := "reconcile-panicked"
				msg := fmt.Sprintf("reconcile of a CRD-admitted object panicked: %v", rec.Panic)
				if !reported[fmt.Sprint(rec.Panic)] && len(reported) < 6 {
					reported[fmt.Sprint(rec.Panic)] = true
					res.Violations = append(res.Violations, Witness{Prop: "C15", Clause: clause, Msg: msg, Family: "c15", Case: i, Seed: ctx.Seed, Tier: ctx.Tier,
						Detail: j{"input": c, "stack": rec.Stack}})
				}
				res.Stats["panics"]++
				break
			}
			if rec.Err != nil {
				res.Stats["reconciles_returning_error"]++
			} else {
				res.Stats["reconciles_returning_nil"]++
			}
			for _, n := range w.PodNames() {
				if r.Intn(2) == 0 {
					w.Kubelet(n, "progress")
				}
			}
			if !deliver("pod update") {
				break
			}
			if k == perCase-1 {
				w.Srv.Remove(simapi.Sets, world.NS, "web")
				res.Stats["set_delete_events_delivered"]++
				deliver("delete")
			}
		}
	}
	return res
}

// runC15Hostile: the hostile scenario family (valid defaulted specs, faults, lag, restarts, re-created
// sets, caches catching up mid-reconcile) under the panic monitor only.
// recreateDuringStatusWrite: the set is deleted (and, in one variant, re-created under the same name) in the
// API while the controller still reconciles the cached old object; its status write is answered with a
// conflict / not-found and the set cache catches up one event per failed call, so the status updater's retry
// loop finds the set gone from the lister, or another object under the same name.
func recreateDuringStatusWrite(recreate bool, pol asv1.PodManagementPolicyType) func(*fam) {
	return func(f *fam) {
		w, r := f.w, f.r
		r.Sets = []string{"web"}
		p := int32(0)
		opts := world.SetOpts{Name: "web", Replicas: 2, Policy: pol, Partition: &p, HistLimit: 2}
		w.Srv.Seed(simapi.Sets, world.NewSet(opts))
		w.DeliverAll()
		r.Calm(1)
		w.Kubelet("web-0", "unready") // the next reconcile has a status to write
		w.Deliver(simapi.Pods, -1)
		w.Srv.Remove(simapi.Sets, world.NS, "web")
		r.Trace = append(r.Trace, fmt.Sprintf("directed: set deleted in the API (re-created: %v), set cache not yet told", recreate))
		if recreate {
			w.Srv.Seed(simapi.Sets, world.NewSet(opts))
		}
		w.CatchUp, w.CatchUpOneByOne = true, true
		r.Reconcile("web")
		r.Reconcile("web")
		w.CatchUp, w.CatchUpOneByOne = false, false
		w.DeliverAll()
		r.Calm(1)
		f.st.Inc("set_replaced_during_status_write_scenarios")
	}
}

func runC15Hostile(ctx *Ctx) *Result {
	chk := func(v *mon.View, st mon.Stats) []mon.Violation { return nil }
	directed := []func(*fam){
		recreateDuringStatusWrite(false, asv1.ParallelPodManagement), recreateDuringStatusWrite(true, asv1.ParallelPodManagement),
		recreateDuringStatusWrite(false, asv1.OrderedReadyPodManagement), recreateDuringStatusWrite(true, asv1.OrderedReadyPodManagement),
	}
	run := scenarioFamilyOpt("C15", cfgSlotHeavy, chk, func(v *mon.View) bool { return v.AnyErr || v.R.Err != nil }, directed, true)
	res := run(ctx)
	res.Stats["hostile_scenario_reconciles"] = res.Evaluations
	return res
}

// runC15Churn: long template histories. One set, dozens of distinct templates in a row (with an occasional
// return to an earlier one), reconciled after every edit: revision names, hash labels and collision counts are
// functions of the template bytes, so rare shapes (a hash label that parses as a number, two templates whose
// names collide) only turn up when many different templates pass through the history code.
func runC15Churn(ctx *Ctx) *Result { return churnFamily("C15")(ctx) }

// churnFamily: the template-churn workload under the panic monitor (C15) or, in addition, under the
// revision-store monitor (C08: histories in which hash labels parse as numbers take EqualRevision's
// short-cut, which the four fixed templates of the scenario family never do).
func churnFamily(prop string) func(ctx *Ctx) *Result {
	return func(ctx *Ctx) *Result { return runChurn(ctx, prop) }
}

func runChurn(ctx *Ctx, prop string) *Result {
	res := newResult()
	srv := simapi.New()
	w := world.New(srv)
	reported := 0
	for i := ctx.Lo; i < ctx.hi(); i++ {
		if !ctx.mine(i) {
			continue
		}
		r := rand.New(rand.NewSource(ctx.caseSeed(i)))
		w.ResetLight()
		p := int32(0)
		set := world.NewSet(world.SetOpts{Name: "web", Replicas: int32(r.Intn(2)), Partition: &p, HistLimit: []int32{0, 2, 10, 100}[r.Intn(4)]})
		w.Srv.Seed(simapi.Sets, set)
		w.DeliverAll()
		var images, numericImgs []string
		numeric := map[string]bool{}
		// images known (for this template) to give a hash label that parses as an int32 - about one template
		// in 400 does; a third of the cases start with two of them, so that histories with several such
		// revisions exist (EqualRevision's hash short-cut compares two of them). Confirmed at run time:
		// churn_known_numeric_images_confirmed counts the ones whose revision really got such a label.
		known := []string{"img:92246-5", "img:95334-14", "img:95889-21", "img:26571-39", "img:86636-9", "img:38785-14", "img:93640-0", "img:63730-4", "img:27769-28", "img:78686-2", "img:85827-29", "img:60841-31"}
		var planted []string
		if i%3 == 0 {
			a := r.Intn(len(known))
			planted = []string{known[a], known[(a+1+r.Intn(len(known)-1))%len(known)]}
		}
		for k := 0; k < 40; k++ {
			img := fmt.Sprintf("img:%d-%d", ctx.caseSeed(i)%100000, k)
			if len(planted) == 2 && (k == 1 || k == 3 || k == 9) {
				img = planted[(k/3)%2] // first, second, first again (a return to it)
			}
			if k%7 == 6 {
				img = images[r.Intn(len(images))] // back to an earlier template
				if len(numericImgs) > 0 && r.Intn(2) == 0 {
					// ... preferably to one whose revision carries an all-digit hash label
					img = numericImgs[r.Intn(len(numericImgs))]
					res.Stats["churn_returns_to_a_template_with_all_digit_hash"]++
				}
				res.Stats["churn_returns_to_an_earlier_template"]++
			}
			images = append(images, img)
			w.EditSet("web", func(s *asv1.StatefulSet) { s.Spec.Template.Spec.Containers[0].Image = img })
			w.DeliverAll()
			rec := w.Reconcile(world.NS + "/web")
			res.Evaluations++
			res.Stats["churn_reconciles"]++
			if rec.Panic != nil {
				res.Stats["panics"]++
				if reported < 3 && prop == "C15" {
					reported++
					res.Violations = append(res.Violations, Witness{Prop: "C15", Clause: "reconcile-panicked", Msg: fmt.Sprintf("reconcile panicked after template edit #%d of a long history (image %s): %v", k, img, rec.Panic),
						Family: "c15churn", Case: i, Seed: ctx.Seed, Tier: ctx.Tier, Detail: j{"images": images, "stack": rec.Stack}})
				}
				if prop != "C15" {
					res.Inconclusive = append(res.Inconclusive, fmt.Sprintf("churn case %d: a reconcile panicked (C15's business)", i))
				}
				break
			}
			if prop == "C08" {
				for _, x := range mon.CheckC08(mon.NewView(rec), mon.Stats(res.Stats)) {
					if reported < 3 {
						reported++
						res.Violations = append(res.Violations, Witness{Prop: "C08", Clause: x.Clause, Msg: fmt.Sprintf("template edit #%d of a long history (image %s): %s", k, img, x.Msg),
							Family: "c08churn", Case: i, Seed: ctx.Seed, Tier: ctx.Tier, Detail: j{"images": images}})
					}
				}
			}
			for _, rev := range world.RevisionsOf(w.Srv.Snap(), world.NS) {
				if h := rev.Labels["controller.kubernetes.io/hash"]; h != "" && strings.Trim(h, "0123456789") == "" && !numeric[rev.Name] {
					numeric[rev.Name] = true
					res.Stats["churn_revisions_with_all_digit_hash_label"]++
					if h, err := strconv.ParseInt(rev.Labels["controller.kubernetes.io/hash"], 10, 32); err == nil && h > 0 {
						for _, kimg := range planted {
							if kimg == img {
								res.Stats["churn_known_numeric_images_confirmed"]++
							}
						}
						res.Stats["churn_revisions_with_int32_hash_label"]++
					}
					if cur := w.GetSet("web"); cur != nil && cur.Status.UpdateRevision == rev.Name {
						numericImgs = append(numericImgs, img)
						if os.Getenv("CHURN_DEBUG") != "" {
							fmt.Fprintf(os.Stderr, "CHURN_DEBUG numeric %s %s\n", img, rev.Name)
						}
					}
				}
			}
			for _, n := range w.PodNames() {
				w.Kubelet(n, "settle")
			}
			w.DeliverAll()
		}
		res.sig(fmt.Sprint("churn", images))
	}
	return res
}

func init() {
	n1 := scenarioCases(40000, 600000)
	register(&Check{Prop: "C15", Level: "exploration",
		Rule: "StatefulSets are generated as JSON over the fields the shipped CRD knows (each optional block absent / empty / partially filled / hostile: nil and negative partition, unknown policy and strategy strings, malformed and out-of-range annotations, hostile status), admitted and defaulted by an interpreter of manifests/crd.v1.yaml, decoded into the Go type, with or without client-side defaulting, combined with a random pod population at ordinals 0..9 (a fifth of them also with pods at the ends of the int32 ordinal range and just outside what parses as an ordinal), then reconciled 6 times with kubelet progress in between, the object's add / update (metadata touch) / delete events and its pods' events being delivered to the handlers the controller registered, under the same monitor; plus the hostile scenario family (defaulted specs under faults, lag, restarts, deleted and re-created sets, caches catching up mid-reconcile) under the same panic monitor; plus template churn (40 distinct templates in a row per set with returns to earlier ones, so that rare revision-name / hash-label shapes pass through the history code); a panic (or a dead worker process) is a violation; distinct = distinct (admitted object, population)",
		Assume: []string{"replicas so large that the per-ordinal slice cannot be allocated are outside the generated domain (an out-of-memory question)",
			"JSON that the CRD admits but that does not decode into the Go type never reaches the controller (the informer fails earlier) and is skipped"},
		Cases:            func(t string) int { return n1(t) + scenarioCases(2400, 48000)(t) + scenarioCases(800, 16000)(t) },
		Run:              both(runC15, n1, both(runC15Hostile, scenarioCases(2400, 48000), runC15Churn)),
		Floors:           []string{"reconciled_with_nil_partition", "reconciled_with_negative_partition", "without_client_side_defaulting", "with_client_side_defaulting", "annotation_slots_malformed", "hostile_scenario_reconciles", "objects_without_spec", "set_update_events_delivered", "set_delete_events_delivered", "churn_reconciles", "churn_revisions_with_all_digit_hash_label", "populations_with_extreme_ordinals", "set_replaced_during_status_write_scenarios"},
		DeathIsViolation: true})
}
