package main

import (
	"fmt"
	"os"

	asv1 "github.com/pingcap/advanced-statefulset/client/apis/apps/v1"

	"verif/harness/mon"
	"verif/harness/simapi"
	"verif/harness/world"
)

var simAssumptions = []string{
	"simapi (in-memory API server behind the real generated fake clientsets) reproduces the API-server behaviour the property depends on: resourceVersion conflicts, status subresource, graceful pod deletion, owner-reference validation, uid-immutability in patches, immutable ControllerRevision.data, GC with propagation policy",
	"pod spec immutability on update is NOT emulated (the controller's storage/identity update of an adopted pod is accepted)",
	"informer lag is modelled as ordered per-kind prefixes of the watch stream plus re-lists; admission webhooks, finalizers other than the harness' own, and real etcd timing are out of reach",
}

type recCheck func(v *mon.View, st mon.Stats) []mon.Violation

// nontrivial tells whether a record has an action of the class the monitor is responsible for.
type nontrivialFn func(v *mon.View) bool

// scenarioFamily builds the Run function for a per-reconcile property.
func scenarioFamily(prop string, cfgOf func(i int) world.Cfg, check recCheck, nontrivial nontrivialFn, directed []func(*fam)) func(ctx *Ctx) *Result {
	return scenarioFamilyOpt(prop, cfgOf, check, nontrivial, directed, false)
}

// scenarioFamilyOpt: with panicIsViolation a reconcile panic is a violation of prop (C15), else inconclusive.
func scenarioFamilyOpt(prop string, cfgOf func(i int) world.Cfg, check recCheck, nontrivial nontrivialFn, directed []func(*fam), panicIsViolation bool) func(ctx *Ctx) *Result {
	return func(ctx *Ctx) *Result {
		res := newResult()
		srv := simapi.New()
		w := world.New(srv)
		st := mon.Stats(res.Stats)
		for i := ctx.Lo; i < ctx.hi(); i++ {
			if !ctx.mine(i) {
				continue
			}
			f := &fam{ctx: ctx, res: res, w: w, prop: prop, check: check, nontrivial: nontrivial, st: st, idx: i, panicIsViolation: panicIsViolation}
			if i-ctx.Lo < len(directed) {
				w.Reset()
				f.r = world.NewRunner(w, ctx.caseSeed(i), world.DefaultCfg())
				f.r.OnRecord = f.onRecord
				f.safely(func() { directed[i-ctx.Lo](f) })
				dumpTrace(f)
				continue
			}
			w.Reset()
			f.r = world.NewRunner(w, ctx.caseSeed(i), cfgOf(i))
			f.r.OnRecord = f.onRecord
			f.safely(func() {
				f.r.Setup()
				f.r.Hostile()
			})
			dumpTrace(f)
			if w.Restarts > 40 {
				// budget of leaked broadcaster goroutines per process
				srv = simapi.New()
				w = world.New(srv)
			}
		}
		return res
	}
}

// dumpTrace prints the scenario trace when VCHECK_TRACE is set (single-case debugging).
func dumpTrace(f *fam) {
	if os.Getenv("VCHECK_TRACE") != "" && f.ctx.Only >= 0 {
		for _, l := range f.r.Trace {
			fmt.Println(l)
		}
	}
}

type fam struct {
	ctx              *Ctx
	res              *Result
	w                *world.World
	r                *world.Runner
	prop             string
	check            recCheck
	nontrivial       nontrivialFn
	st               mon.Stats
	idx              int
	reported         map[string]bool
	panicIsViolation bool
}

func (f *fam) safely(fn func()) {
	defer func() {
		if p := recover(); p != nil {
			f.res.Inconclusive = append(f.res.Inconclusive, fmt.Sprintf("case %d: harness panic: %v", f.idx, p))
		}
	}()
	fn()
}

func (f *fam) onRecord(rec *world.Record) {
	f.res.Evaluations++
	v := mon.NewView(rec)
	if rec.Panic != nil && f.panicIsViolation {
		f.st.Inc("reconcile_panics")
		f.report(mon.V(f.prop, "reconcile-panicked", "a reconcile of a valid set panicked under a hostile schedule: %v\n%s", rec.Panic, rec.Stack))
		return
	}
	if rec.Panic != nil {
		// a crash of repository code in a check whose property is not about crashing: inconclusive, never silently "no bad action"
		f.res.Inconclusive = append(f.res.Inconclusive, fmt.Sprintf("case %d: reconcile panicked: %v", f.idx, rec.Panic))
		f.st.Inc("reconcile_panics")
		return
	}
	vs := f.check(v, f.st)
	if f.nontrivial != nil && f.nontrivial(v) {
		f.res.sig(v.Sig())
		if len(f.res.Samples) < 3 {
			f.res.sample(3, sampleOf(v))
		}
	}
	for _, x := range vs {
		f.report(x)
	}
}

func (f *fam) report(x mon.Violation) {
	if x.Prop != f.prop {
		return
	}
	if f.reported == nil {
		f.reported = map[string]bool{}
	}
	if f.reported[x.Clause] {
		return
	}
	f.reported[x.Clause] = true
	tr := f.r.Trace
	if len(tr) > 400 {
		tr = tr[len(tr)-400:]
	}
	f.res.Violations = append(f.res.Violations, Witness{Prop: x.Prop, Clause: x.Clause, Msg: x.Msg, Family: "scenario", Case: f.idx, Seed: f.ctx.Seed, Tier: f.ctx.Tier,
		Trace: append([]string(nil), tr...)})
}

func sampleOf(v *mon.View) interface{} {
	var calls []string
	for _, c := range v.R.Calls {
		if c.IsWrite() {
			calls = append(calls, c.String())
		}
	}
	var pods []string
	for _, p := range v.Claimed {
		pods = append(pods, fmt.Sprintf("%s phase=%s ready=%v terminating=%v rev=%s", p.Name, p.Status.Phase, world.IsReady(p), p.DeletionTimestamp != nil, p.Labels["controller-revision-hash"]))
	}
	m := map[string]interface{}{"reconcile": v.R.Key, "claimed_pods_in_snapshot": pods, "controller_writes": calls}
	if v.Set != nil {
		m["replicas"] = v.Replicas
		m["slots"] = fmt.Sprint(v.Slots)
		m["policy"] = v.Set.Spec.PodManagementPolicy
		m["strategy"] = v.Set.Spec.UpdateStrategy.Type
		m["partition"] = v.Partition
		m["update_revision"] = v.UpdateRev
	}
	if v.R.Err != nil {
		m["error"] = v.R.Err.Error()
	}
	return m
}

func scenarioCases(quick, thorough int) func(string) int {
	return func(t string) int {
		if t == "thorough" {
			return thorough
		}
		return quick
	}
}

func cfgDefault(i int) world.Cfg {
	c := world.DefaultCfg()
	if i%3 == 1 {
		c.MaxOrd = 12
	}
	if i%6 == 1 {
		c.MaxReplicas = 12 // two-digit ordinals inside the desired set: created, updated, scaled in
	}
	if i%4 == 3 {
		gentle(&c)
	}
	return c
}

func cfgSlotHeavy(i int) world.Cfg {
	c := world.DefaultCfg()
	if i%3 == 1 {
		c.MaxOrd = 12 // ordinals across the decimal-width boundary
	}
	if i%6 == 1 {
		c.MaxReplicas = 12 // two-digit ordinals inside the desired set: created, updated, scaled in
	}
	if i%2 == 0 {
		c.SlotHeavy = true
	}
	if i%5 == 0 {
		c.Faults, c.Restarts = false, false
	}
	if i%4 == 3 {
		gentle(&c)
	}
	return c
}

// gentle turns a configuration into a co-operative one in which rollouts and ordered scaling progress.
func gentle(c *world.Cfg) {
	c.Gentle, c.Foreign, c.Faults, c.Restarts, c.Pause, c.DeleteSet, c.SecondSet = true, false, false, false, false, false, false
	c.StepsLo, c.StepsHi = 40, 120
}

func cfgPolicy(p asv1.PodManagementPolicyType) func(int) world.Cfg {
	return func(i int) world.Cfg {
		c := cfgSlotHeavy(i)
		c.OnlyPolicy = p
		return c
	}
}

func hasPodDelete(v *mon.View) bool { return len(v.PodDeletes) > 0 }
func hasPodCreate(v *mon.View) bool { return len(v.PodCreates) > 0 }
func hasPodAction(v *mon.View) bool { return len(v.PodDeletes)+len(v.PodCreates) > 0 }

func init() {
	register(&Check{Prop: "C03", Level: "exploration",
		Rule:   "seeded random scenarios (hostile initial pod/revision population, then 20-80 steps of reconcile / ordered cache delivery / kubelet / user edits / faults / restarts) plus directed slot scenarios; every reconcile is checked; non-trivial = the reconcile issued at least one pod delete; distinct = distinct (snapshot signature, write list)",
		Assume: simAssumptions, Cases: scenarioCases(4800, 96000),
		Run:    scenarioFamily("C03", cfgSlotHeavy, mon.CheckC03, hasPodDelete, directedC03),
		Floors: []string{"delete_class_a", "delete_class_b", "delete_class_c", "headline_slot_scenarios"}})
	register(&Check{Prop: "C04", Level: "exploration",
		Rule:   "same scenario family as C03; non-trivial = the reconcile issued at least one pod create",
		Assume: simAssumptions, Cases: scenarioCases(4800, 96000),
		Run:    scenarioFamily("C04", cfgSlotHeavy, mon.CheckC04, hasPodCreate, nil),
		Floors: []string{"creates_at_vacancy", "creates_replacing_terminal"}})
	register(&Check{Prop: "C05", Level: "exploration",
		Rule:   "scenario family restricted to OrderedReady sets; non-trivial = reconcile with a pod create or delete",
		Assume: simAssumptions, Cases: scenarioCases(4800, 96000),
		Run:    scenarioFamily("C05", cfgPolicy(asv1.OrderedReadyPodManagement), mon.CheckC05, hasPodAction, nil),
		Floors: []string{"ordered_creates_checked", "ordered_scalein_checked", "ordered_update_deletes_checked"}})
	register(&Check{Prop: "C07", Level: "exploration",
		Rule:   "scenario family (both policies, several template revisions in flight); non-trivial = reconcile with an update-class delete or a pod create",
		Assume: simAssumptions, Cases: scenarioCases(4800, 96000),
		Run:    scenarioFamily("C07", cfgSlotHeavy, mon.CheckC07, hasPodAction, nil),
		Floors: []string{"update_deletes_checked", "created_below_partition", "created_at_or_above_partition"}})
	register(&Check{Prop: "C14", Level: "exploration",
		Rule:   "scenario family restricted to Parallel sets; non-trivial = error-free reconcile that had scaling work",
		Assume: simAssumptions, Cases: scenarioCases(4800, 96000),
		Run:    scenarioFamily("C14", cfgPolicy(asv1.ParallelPodManagement), mon.CheckC14, hasPodAction, nil),
		Floors: []string{"parallel_reconciles_with_burst>1"}})
	c12fam := scenarioFamily("C12", cfgDefault, mon.CheckC12, func(v *mon.View) bool {
		for _, c := range v.R.Calls {
			if c.Sub == "status" {
				return true
			}
		}
		return false
	}, directedC12)
	register(&Check{Prop: "C12", Level: "exploration",
		Rule:   "scenario family: every status write is checked (bounds, observedGeneration, currentRevision transition); calm family: after convergence the counters are compared with a census of the live pods; non-trivial = reconcile with a status write; distinct = distinct (snapshot signature, write list)",
		Assume: simAssumptions, Cases: func(t string) int { return scenarioCases(3600, 72000)(t) + scenarioCases(1200, 24000)(t) },
		Run:    both(c12fam, scenarioCases(3600, 72000), calmFamily("C12")),
		Floors: []string{"status_writes_checked", "current_revision_transitions_checked", "census_fixed_points_checked", "status_census_checks", "status_conflict_then_retry_scenarios"}})
	register(&Check{Prop: "C13", Level: "exploration",
		Rule:   "scenario family with own/adopted/foreign/orphan revisions; non-trivial = reconcile that deleted a revision",
		Assume: simAssumptions, Cases: scenarioCases(4800, 96000),
		Run: scenarioFamily("C13", cfgDefault, mon.CheckC13, func(v *mon.View) bool {
			for _, c := range v.R.Calls {
				if c.Res == simapi.Revisions && c.Verb == "delete" {
					return true
				}
			}
			return false
		}, directedC13),
		Floors: []string{"history_deletes_checked", "history_postconditions_checked", "bulk_trim_fault_scenarios"}})
	c11n := scenarioCases(4800, 96000)
	register(&Check{Prop: "C11", Level: "exploration",
		Rule:   "scenario family with pause / deletion flags raised at random moments (non-trivial = reconcile of a paused or deleting set); plus pause twins through the event-driven loop (ordered cache delivery -> the controller's own handlers -> virtual-time queue -> processNextWorkItem): the same user edits with and without a pause window (raised at quiescence or mid-work, lowered as the only change) must end quiescent, converged and in the same state, with no write inside the window",
		Assume: simAssumptions, Cases: func(t string) int { return c11n(t) + scenarioCases(600, 12000)(t) },
		Run:    both(scenarioFamily("C11", cfgDefault, mon.CheckC11, func(v *mon.View) bool { return v.Paused || v.Deleting }, nil), c11n, runC11Pause),
		Floors: []string{"paused_reconciles_checked", "deleting_reconciles_checked", "reconciles_of_sets_deleting_in_api", "pause_twins_compared", "pause_windows_raised_mid_work"}})
}

var directedC03 []func(*fam)

func init() {
	register(&Check{Prop: "C10", Level: "exploration",
		Rule:   "scenario family with pods/revisions of every owner kind (this set, same-named set with another UID, another controller, none), label match, terminating flag, overlapping selectors and stale set caches; every controller write on pods / revisions / sets is checked against the owner of its target before the call; non-trivial = reconcile that wrote to an existing pod or revision; cache objects are compared with pre-reconcile deep copies",
		Assume: simAssumptions, Cases: scenarioCases(4800, 96000),
		Run: scenarioFamily("C10", cfgDefault, mon.CheckC10, func(v *mon.View) bool {
			for _, c := range v.R.Writes() {
				if (c.Res == simapi.Pods || c.Res == simapi.Revisions) && c.Verb != "create" {
					return true
				}
			}
			return false
		}, nil),
		Race: runLive("C10"), RaceCases: scenarioCases(16, 160),
		Floors: []string{"ownership_writes_checked", "adoption_patches_checked", "nonmatching_owned_pod_writes", "fresh_reads_seen"}})
	register(&Check{Prop: "C06", Level: "exploration",
		Rule:   "scenario family with 0..2 claim templates, set names with dashes/digits, stale claim caches and faults on claim creates; the ordered write log of the real pod control is checked for identity stamping, claims-before-pod and claim immutability; directed slot-in/slot-out histories check that the same claim objects (UID) come back; non-trivial = reconcile that created a pod",
		Assume: simAssumptions, Cases: scenarioCases(4800, 96000),
		Run:    scenarioFamily("C06", cfgDefault, mon.CheckC06, hasPodCreate, directedC06),
		Floors: []string{"created_pods_checked", "claim_creates_checked", "claim_bindings_checked", "claim_history_scenarios", "claim_history_scenarios_with_lost_claim"}})
	register(&Check{Prop: "C08", Level: "exploration",
		Rule:   "scenario family with template edits, rollbacks (4 template versions), non-template edits, stray revisions; after every successful reconcile the believed update revision must mirror the cached template (independent decode and the exported ApplyRevision); and be the newest of the set's revisions (a re-used revision is renumbered above all others); revision creates / renumbers are checked; directed name-collision scenarios and rollbacks whose renumbering update is answered with a conflict / 500 / timeout; plus template churn (40 distinct templates in a row with returns to earlier ones: hash labels that parse as numbers take EqualRevision's short-cut); non-trivial = reconcile that created or renumbered a revision",
		Assume: simAssumptions, Cases: func(t string) int { return scenarioCases(4800, 96000)(t) + scenarioCases(400, 8000)(t) },
		Run: both(scenarioFamily("C08", cfgDefault, mon.CheckC08, func(v *mon.View) bool {
			for _, c := range v.R.Writes() {
				if c.Res == simapi.Revisions && (c.Verb == "create" || c.Verb == "update") {
					return true
				}
			}
			return false
		}, directedC08), scenarioCases(4800, 96000), churnFamily("C08")),
		Floors: []string{"revision_creates_checked", "revision_renumbers_checked", "successful_reconciles_checked", "unchanged_template_reconciles", "name_collisions_seen", "rollbacks_after_collision", "rollback_renumber_fault_scenarios", "newest_revision_postconditions_checked", "churn_reconciles", "churn_revisions_with_all_digit_hash_label", "churn_known_numeric_images_confirmed"}})
}

var directedC06, directedC08, directedC12, directedC13 []func(*fam)
