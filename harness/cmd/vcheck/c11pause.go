package main

import (
	"fmt"
	"math/rand"
	"strings"

	asv1 "github.com/pingcap/advanced-statefulset/client/apis/apps/v1"

	"verif/harness/mon"
	"verif/harness/simapi"
	"verif/harness/world"
)

// C11, lossless pause: twin runs through the event-driven loop (ordered cache delivery -> the
// controller's own handlers -> virtual-time queue -> processNextWorkItem). Twin A applies a batch of
// user edits to a running set. Twin B raises the pause flag first, applies the same edits (the
// controller must not write anything), then lowers the flag as the only change. Both must end
// quiescent, converged and in the same state.

type pauseEdit struct {
	What string
	Fn   func(s *asv1.StatefulSet)
}

func genPauseEdits(r *rand.Rand) []pauseEdit {
	var out []pauseEdit
	n := 1 + r.Intn(3)
	for i := 0; i < n; i++ {
		switch r.Intn(5) {
		case 0:
			v := int32(r.Intn(6))
			out = append(out, pauseEdit{fmt.Sprintf("replicas=%d", v), func(s *asv1.StatefulSet) { s.Spec.Replicas = world.I32(v) }})
		case 1:
			sl := []int32{int32(r.Intn(5))}
			if r.Intn(3) == 0 {
				sl = append(sl, int32(5+r.Intn(3)))
			}
			out = append(out, pauseEdit{fmt.Sprintf("slots=%v", sl), func(s *asv1.StatefulSet) { world.SetSlots(s, sl) }})
		case 2:
			v := 1 + r.Intn(3)
			out = append(out, pauseEdit{fmt.Sprintf("template=v%d", v), func(s *asv1.StatefulSet) { s.Spec.Template = world.Template(s.Spec.Selector.MatchLabels, v) }})
		case 3:
			pv := int32(r.Intn(4))
			out = append(out, pauseEdit{fmt.Sprintf("partition=%d", pv), func(s *asv1.StatefulSet) {
				if s.Spec.UpdateStrategy.RollingUpdate != nil {
					s.Spec.UpdateStrategy.RollingUpdate.Partition = world.I32(pv)
				}
			}})
		case 4:
			out = append(out, pauseEdit{"slots cleared", func(s *asv1.StatefulSet) { world.SetSlots(s, nil) }})
		}
	}
	return out
}

func runC11Pause(ctx *Ctx) *Result {
	res := newResult()
	srv := simapi.New()
	w := world.New(srv)
	seen := map[string]int{}
	for i := ctx.Lo; i < ctx.hi(); i++ {
		if !ctx.mine(i) {
			continue
		}
		seed := ctx.caseSeed(i)
		var finals [2]string
		var traces [2][]string
		ok := true
		report := func(clause, msg string, tr []string) {
			seen[clause]++
			if seen[clause] <= 2 {
				res.Violations = append(res.Violations, Witness{Prop: "C11", Clause: clause, Msg: msg, Family: "pause-twin", Case: i, Seed: ctx.Seed, Tier: ctx.Tier, Trace: tail(tr, 120)})
			}
		}
		for twin := 0; twin < 2 && ok; twin++ {
			r := rand.New(rand.NewSource(seed))
			w.Reset()
			run := world.NewRunner(w, seed, world.DefaultCfg())
			run.Sets = []string{"web"}
			o := world.SetOpts{Name: "web", Replicas: int32(1 + r.Intn(4)), HistLimit: int32(r.Intn(3)), Claims: []string{"data"}[:r.Intn(2)]}
			p := int32(0)
			o.Partition = &p
			if r.Intn(2) == 0 {
				o.Policy = asv1.ParallelPodManagement
			}
			if r.Intn(3) == 0 {
				o.Slots = []int32{int32(r.Intn(4))}
			}
			srv.Seed(simapi.Sets, world.NewSet(o))
			edits := genPauseEdits(r)
			midway := r.Intn(2) == 0 // raise the flag while earlier work is still in progress
			run.Trace = append(run.Trace, fmt.Sprintf("twin %d: set %+v", twin, o))
			inWindow := false
			run.OnRecord = func(rec *world.Record) {
				res.Evaluations++
				if inWindow {
					for _, x := range mon.CheckC11(mon.NewView(rec), mon.Stats(res.Stats)) {
						report(x.Clause, "during the pause window: "+x.Msg, run.Trace)
					}
				}
			}
			if midway {
				run.EventLoop(1 + r.Intn(4))
			} else if q, _ := run.EventLoop(400); !q {
				res.Inconclusive = append(res.Inconclusive, fmt.Sprintf("pause twin %d: start state not quiescent", i))
				ok = false
				break
			}
			if twin == 1 {
				w.EditSet("web", func(s *asv1.StatefulSet) { world.SetPaused(s, true) })
				run.Trace = append(run.Trace, "user: pause")
				inWindow = true
				run.EventLoop(20) // the controller sees the flag
			}
			for _, e := range edits {
				w.EditSet("web", e.Fn)
				run.Trace = append(run.Trace, "user: "+e.What)
				if twin == 1 {
					run.EventLoop(10)
				}
			}
			if twin == 1 {
				inWindow = false
				w.EditSet("web", func(s *asv1.StatefulSet) { world.SetPaused(s, false) })
				run.Trace = append(run.Trace, "user: un-pause (the only change)")
				res.Stats["pause_windows"]++
				if midway {
					res.Stats["pause_windows_raised_mid_work"]++
				}
			}
			q, _ := run.EventLoop(600)
			traces[twin] = run.Trace
			if !q {
				report("no-quiescence-after-pause", fmt.Sprintf("twin %d did not reach quiescence", twin), run.Trace)
				ok = false
				break
			}
			snap := srv.Snap()
			if s := w.GetSet("web"); s != nil {
				if why := world.Converged(snap, s); why != "" {
					clause := "not-converged-after-unpause"
					if twin == 0 {
						clause = "twin-without-pause-not-converged"
					}
					report(clause, fmt.Sprintf("twin %d is quiescent but not converged: %s", twin, why), run.Trace)
					ok = false
					break
				}
			}
			fp := c09Fingerprint(snap, []string{"web"})
			finals[twin] = strings.Join(dropPrefix(fp, "claim "), "\n") + "\n" + strings.Join(keepPrefix(fp, "claim "), "\n")
		}
		if !ok {
			continue
		}
		res.Stats["pause_twins_compared"]++
		res.sig(fmt.Sprint(traces[1]))
		res.sample(2, map[string]interface{}{"paused_twin_trace_tail": tail(traces[1], 10)})
		if finals[0] != finals[1] {
			report("pause-not-lossless", "after the pause window the set converged to a different state than the twin that was never paused: "+
				diffLines(strings.Split(finals[0], "\n"), strings.Split(finals[1], "\n")), traces[1])
		}
	}
	for k, n := range seen {
		res.Stats["violations_"+k] = n
	}
	return res
}

func keepPrefix(l []string, p string) []string {
	var out []string
	for _, x := range l {
		if strings.HasPrefix(x, p) {
			out = append(out, x)
		}
	}
	return out
}
