package main

import (
	"bytes"
	"fmt"
	"sort"

	asv1 "github.com/pingcap/advanced-statefulset/client/apis/apps/v1"
	appsv1 "k8s.io/api/apps/v1"
	corev1 "k8s.io/api/core/v1"
	metav1 "k8s.io/apimachinery/pkg/apis/meta/v1"
	"k8s.io/apimachinery/pkg/runtime"

	"verif/harness/mon"
	"verif/harness/simapi"
	"verif/harness/world"
)

// C06 directed: an ordinal that is scaled in (slot) and later scaled out again gets the same claim objects back.
func claimHistory(pol asv1.PodManagementPolicyType, name string, k int) func(*fam) {
	return claimHistoryX(pol, name, k, false)
}

// claimHistoryX with lost=true: while the ordinal is scaled in, somebody deletes one of its claims; on
// scale-out the claim has to be created afresh before the pod (the per-reconcile monitor judges that).
func claimHistoryX(pol asv1.PodManagementPolicyType, name string, k int, lost bool) func(*fam) {
	return func(f *fam) {
		w, r := f.w, f.r
		r.Sets = []string{name}
		p := int32(0)
		w.Srv.Seed(simapi.Sets, world.NewSet(world.SetOpts{Name: name, Replicas: 3, Policy: pol, Partition: &p, HistLimit: 2, Claims: []string{"data", "log"}}))
		r.Trace = append(r.Trace, fmt.Sprintf("directed claim history: set %s, slot %d in and out, policy %s", name, k, pol))
		if cr := r.Calm(1); !cr.Converged {
			f.res.Inconclusive = append(f.res.Inconclusive, "claim history scenario did not reach its start state")
			return
		}
		uids := func() map[string]string {
			m := map[string]string{}
			for _, o := range w.Srv.Snap().List(simapi.PVCs, world.NS) {
				c := o.(*corev1.PersistentVolumeClaim)
				m[c.Name] = string(c.UID)
			}
			return m
		}
		before := uids()
		w.EditSet(name, func(s *asv1.StatefulSet) { world.SetSlots(s, []int32{int32(k)}) })
		r.Trace = append(r.Trace, fmt.Sprintf("user: slot %d in", k))
		if cr := r.Calm(1); !cr.Converged {
			f.report(mon.V("C06", "history-not-converged", "after slot in: %v", cr.NotConv))
			return
		}
		mid := uids()
		lostClaim := fmt.Sprintf("data-%s-%d", name, k)
		if lost {
			w.Srv.Remove(simapi.PVCs, world.NS, lostClaim)
			w.DeliverAll()
			r.Trace = append(r.Trace, "somebody deletes claim "+lostClaim)
			f.st.Inc("claim_history_scenarios_with_lost_claim")
		}
		w.EditSet(name, func(s *asv1.StatefulSet) { world.SetSlots(s, nil) })
		r.Trace = append(r.Trace, fmt.Sprintf("user: slot %d out", k))
		if cr := r.Calm(1); !cr.Converged {
			f.report(mon.V("C06", "history-not-converged", "after slot out: %v", cr.NotConv))
			return
		}
		after := uids()
		f.st.Inc("claim_history_scenarios")
		for n, u := range before {
			if lost && n == lostClaim {
				if after[n] == "" {
					f.report(mon.V("C06", "history-claim-not-recreated", "claim %s was deleted while its ordinal was scaled in and did not come back with the pod", n))
				}
				continue
			}
			if mid[n] != u || after[n] != u {
				f.report(mon.V("C06", "claim-identity-changed", "claim %s had uid %s, after scale-in %q, after scale-out %q", n, u, mid[n], after[n]))
			}
		}
		pod := w.GetPod(fmt.Sprintf("%s-%d", name, k))
		if pod == nil {
			f.report(mon.V("C06", "history-pod-missing", "pod %s-%d did not come back", name, k))
			return
		}
		for _, t := range []string{"data", "log"} {
			want := fmt.Sprintf("%s-%s-%d", t, name, k)
			found := false
			for _, v := range pod.Spec.Volumes {
				if v.Name == t && v.PersistentVolumeClaim != nil && v.PersistentVolumeClaim.ClaimName == want {
					found = true
				}
			}
			if !found || before[want] == "" || after[want] == "" {
				f.report(mon.V("C06", "history-claim-not-rebound", "pod %s-%d came back without its original claim %s", name, k, want))
			}
		}
	}
}

// C06 directed: a fault on each claim create of a pod; the monitor checks that no pod create follows.
func claimFaults(kind string) func(*fam) {
	return func(f *fam) {
		w, r := f.w, f.r
		r.Sets = []string{"web"}
		p := int32(0)
		w.Srv.Seed(simapi.Sets, world.NewSet(world.SetOpts{Name: "web", Replicas: 2, Policy: asv1.ParallelPodManagement, Partition: &p, HistLimit: 2, Claims: []string{"data", "log"}}))
		w.DeliverAll()
		for _, claim := range []string{"data-web-0", "log-web-0", "data-web-1", "log-web-1"} {
			w.Srv.ClearFaults()
			w.Srv.AddFault(&simapi.Fault{Identity: "create|persistentvolumeclaims||" + claim, Kind: kind, Mode: "before"})
			r.Trace = append(r.Trace, "fault: "+kind+" on create of "+claim)
			r.Reconcile("web")
			f.st.Inc("claim_fault_scenarios")
			w.DeliverAll()
		}
		w.Srv.ClearFaults()
	}
}

// C12 directed: the reconcile works on a copy of the set that is one write behind, the first status
// write conflicts, the informer catches up, the retry is accepted: it must carry the computed status.
func staleStatusScenario(pol asv1.PodManagementPolicyType, edit string) func(*fam) {
	return func(f *fam) {
		w, r := f.w, f.r
		r.Sets = []string{"web"}
		p := int32(0)
		w.Srv.Seed(simapi.Sets, world.NewSet(world.SetOpts{Name: "web", Replicas: 3, Policy: pol, Partition: &p, HistLimit: 2}))
		r.Trace = append(r.Trace, "directed stale-status scenario: "+edit)
		if cr := r.Calm(1); !cr.Converged {
			f.res.Inconclusive = append(f.res.Inconclusive, "stale-status scenario did not reach its start state")
			return
		}
		// somebody touches the set (and possibly its spec); the set cache does not see it yet
		w.EditSet("web", func(s *asv1.StatefulSet) {
			if s.Labels == nil {
				s.Labels = map[string]string{}
			}
			s.Labels["touched"] = "1"
			if edit == "generation" {
				s.Spec.Replicas = world.I32(4)
			}
		})
		// pods change and the pod cache sees it: the status must be rewritten
		w.Kubelet("web-1", "unready")
		w.Deliver(simapi.Pods, -1)
		w.CatchUp = true
		rec := r.Reconcile("web")
		w.CatchUp = false
		n := 0
		for _, c := range rec.Calls {
			if c.Sub == "status" {
				n++
			}
		}
		if n >= 2 {
			f.st.Inc("status_conflict_then_retry_scenarios")
		}
		w.DeliverAll()
		r.Calm(1)
	}
}

// C12 directed: the set cache misses the status written when a rollout completed; a later reconcile
// (pod cache fresh) computes its status from that stale copy, its write conflicts, the cache catches
// up, and the retry is accepted.
func staleStatusRegress(pol asv1.PodManagementPolicyType) func(*fam) {
	return func(f *fam) {
		w, r := f.w, f.r
		r.Sets = []string{"web"}
		p := int32(0)
		w.Srv.Seed(simapi.Sets, world.NewSet(world.SetOpts{Name: "web", Replicas: 2, Policy: pol, Partition: &p, HistLimit: 3}))
		r.Trace = append(r.Trace, "directed stale-status regress scenario")
		if cr := r.Calm(1); !cr.Converged {
			f.res.Inconclusive = append(f.res.Inconclusive, "stale-status regress scenario did not reach its start state")
			return
		}
		w.EditSet("web", func(s *asv1.StatefulSet) { s.Spec.Template = world.Template(s.Spec.Selector.MatchLabels, 1) })
		w.DeliverAll() // the cache sees the new template; from here on set events are withheld
		for i := 0; i < 40; i++ {
			for _, n := range w.PodNames() {
				w.Kubelet(n, "settle")
			}
			w.Deliver(simapi.Pods, -1)
			w.Deliver(simapi.PVCs, -1)
			w.CatchUp, w.CatchUpOneByOne = true, false
			r.Reconcile("web")
			w.CatchUp = false
			s := w.GetSet("web")
			if s.Status.CurrentRevision == s.Status.UpdateRevision && s.Status.UpdatedReplicas == 2 && s.Status.ReadyReplicas == 2 {
				break
			}
		}
		// rollout complete in the API; the cached set may lag behind by the last status writes
		cached := w.CachedSet(world.NS, "web")
		api := w.GetSet("web")
		if cached != nil && cached.Status.CurrentRevision != api.Status.CurrentRevision {
			f.st.Inc("stale_status_regress_scenarios_armed")
		}
		w.Kubelet("web-0", "unready")
		w.Kubelet("web-1", "unready")
		w.Deliver(simapi.Pods, -1)
		w.CatchUp, w.CatchUpOneByOne = true, true
		r.Reconcile("web")
		w.CatchUp, w.CatchUpOneByOne = false, false
		w.DeliverAll()
		r.Calm(1)
		f.st.Inc("stale_status_regress_scenarios")
	}
}

// C08 directed: a pre-existing revision with the name the controller is about to choose.
func collisionScenario(sameData bool) func(*fam) { return collisionScenario2(sameData, false, false) }

func collisionScenario2(sameData, owned, listed bool) func(*fam) {
	return func(f *fam) {
		w, r := f.w, f.r
		r.Sets = []string{"web"}
		p := int32(0)
		mk := func() {
			w.Srv.Seed(simapi.Sets, world.NewSet(world.SetOpts{Name: "web", Replicas: 0, Partition: &p, HistLimit: 10, TemplateV: 1}))
		}
		// probe run: learn the name and data the controller chooses for this template
		mk()
		w.DeliverAll()
		saved := r.OnRecord
		r.OnRecord = nil
		r.Reconcile("web")
		r.OnRecord = saved
		revs := world.RevisionsOf(w.Srv.Snap(), world.NS)
		if len(revs) != 1 {
			f.res.Inconclusive = append(f.res.Inconclusive, "collision scenario: probe run did not create exactly one revision")
			return
		}
		probe := revs[0]
		w.Reset()
		r.Trace = append(r.Trace, fmt.Sprintf("directed collision: pre-existing revision %s, same data=%v", probe.Name, sameData))
		mk()
		squat := &appsv1.ControllerRevision{ObjectMeta: metav1.ObjectMeta{Name: probe.Name, Namespace: world.NS, Labels: map[string]string{"unrelated": "x"}}, Revision: 7}
		if listed {
			squat.Labels = map[string]string{"app": "web"}
		}
		if owned {
			squat.OwnerReferences = []metav1.OwnerReference{*world.SetOwnerRef(w.GetSet("web"))}
		}
		if sameData {
			squat.Data = runtime.RawExtension{Raw: append([]byte(nil), probe.Data.Raw...)}
		} else {
			squat.Data = runtime.RawExtension{Raw: []byte(`{"spec":{"template":{"$patch":"replace","metadata":{"labels":{"x":"y"}}}}}`)}
		}
		stored := w.Srv.Seed(simapi.Revisions, squat).(*appsv1.ControllerRevision)
		w.DeliverAll()
		rec := r.Reconcile("web")
		w.DeliverAll()
		r.Reconcile("web")
		now, _ := w.Srv.Get(simapi.Revisions, world.NS, probe.Name).(*appsv1.ControllerRevision)
		if now == nil || !bytes.Equal(now.Data.Raw, stored.Data.Raw) || now.Revision != stored.Revision || now.UID != stored.UID {
			f.report(mon.V("C08", "collision-overwrote-revision", "the pre-existing revision %s was changed or removed by the colliding create", probe.Name))
		}
		set := w.GetSet("web")
		if !sameData {
			if rec.Err != nil {
				f.res.Inconclusive = append(f.res.Inconclusive, fmt.Sprintf("collision scenario: reconcile failed: %v", rec.Err))
				return
			}
			if set.Status.CollisionCount == nil || *set.Status.CollisionCount < 1 {
				f.report(mon.V("C08", "collision-not-counted", "name collision on %s but status.collisionCount=%v", probe.Name, set.Status.CollisionCount))
			}
			if set.Status.UpdateRevision == probe.Name || set.Status.UpdateRevision == "" {
				f.report(mon.V("C08", "collision-name-reused", "after a collision with different data status.updateRevision=%q", set.Status.UpdateRevision))
			}
			f.st.Inc("collision_scenarios_different_data")
			// follow-up: with the collision count changed, a rollback must still re-use the recorded
			// revisions and an unchanged template must not add one (the per-reconcile monitor judges)
			for _, v := range []int{2, 1, 2, 1} {
				w.EditSet("web", func(s *asv1.StatefulSet) { s.Spec.Template = world.Template(s.Spec.Selector.MatchLabels, v) })
				w.DeliverAll()
				r.Reconcile("web")
				w.DeliverAll()
				r.Reconcile("web")
				w.DeliverAll()
			}
			f.st.Inc("rollbacks_after_collision")
		} else {
			f.st.Inc("collision_scenarios_same_data")
		}
	}
}

// C08 directed: rollback A -> B -> A where the renumbering update of revision A is answered with a fault.
// Whatever the reconcile then reports, a reconcile that succeeds leaves A numbered above B (judged by the
// per-reconcile monitor: update-revision-not-the-newest), and the calm phase ends with A as update revision.
func rollbackFaultScenario(kind, mode string, catchUp, nilOnError bool) func(*fam) {
	return func(f *fam) {
		w, r := f.w, f.r
		r.Sets = []string{"web"}
		p := int32(0)
		w.Srv.Seed(simapi.Sets, world.NewSet(world.SetOpts{Name: "web", Replicas: 1, Partition: &p, HistLimit: 10, TemplateV: 0}))
		w.DeliverAll()
		r.Calm(1)
		var nameA string
		for _, rev := range world.RevisionsOf(w.Srv.Snap(), world.NS) {
			nameA = rev.Name
		}
		w.EditSet("web", func(s *asv1.StatefulSet) { s.Spec.Template = world.Template(s.Spec.Selector.MatchLabels, 1) })
		w.DeliverAll()
		r.Calm(1)
		w.EditSet("web", func(s *asv1.StatefulSet) { s.Spec.Template = world.Template(s.Spec.Selector.MatchLabels, 0) })
		w.DeliverAll()
		r.Trace = append(r.Trace, fmt.Sprintf("directed rollback: renumbering update of %s answered with %s/%s (caches catch up mid-reconcile: %v, failed calls return nil objects: %v)", nameA, kind, mode, catchUp, nilOnError))
		w.Srv.AddFault(&simapi.Fault{Identity: "update|controllerrevisions||" + nameA, Occ: 0, Kind: kind, Mode: mode})
		w.CatchUp = catchUp
		// under either client convention for the object returned next to an error (nil as the generated
		// fakes do, zero-valued as the real typed clients do: the retry closure looks at it)
		w.Srv.NilOnError = nilOnError
		rec := r.Reconcile("web")
		w.Srv.NilOnError = false
		w.CatchUp = false
		w.Srv.ClearFaults()
		fired := false
		for _, c := range rec.Calls {
			if c.Injected != "" {
				fired = true
			}
		}
		if !fired {
			f.res.Inconclusive = append(f.res.Inconclusive, "rollback scenario: the renumbering update was never issued")
			return
		}
		f.st.Inc("rollback_renumber_fault_scenarios")
		w.DeliverAll()
		r.Calm(1)
		if s := w.GetSet("web"); s != nil && s.Status.UpdateRevision != nameA {
			f.report(mon.V("C08", "rollback-did-not-reuse-revision", "after the rollback status.updateRevision=%q, the earlier revision of that template is %q", s.Status.UpdateRevision, nameA))
		}
	}
}

// C13 directed: the history limit is lowered so that one reconcile has to trim several revisions, and the
// delete of the k-th candidate (oldest first) fails; a reconcile that nevertheless reports success is held
// to the post-condition by the per-reconcile monitor (at most limit unused revisions remain, oldest first).
func bulkTrimFault(k int, kind, mode string, limit int32) func(*fam) {
	return func(f *fam) {
		w, r := f.w, f.r
		r.Sets = []string{"web"}
		p := int32(0)
		w.Srv.Seed(simapi.Sets, world.NewSet(world.SetOpts{Name: "web", Replicas: 1, Partition: &p, HistLimit: 10, TemplateV: 0}))
		w.DeliverAll()
		r.Calm(1)
		for _, v := range []int{1, 2, 3} {
			v := v
			w.EditSet("web", func(s *asv1.StatefulSet) { s.Spec.Template = world.Template(s.Spec.Selector.MatchLabels, v) })
			w.DeliverAll()
			if cr := r.Calm(1); !cr.Converged {
				f.res.Inconclusive = append(f.res.Inconclusive, "bulk trim scenario did not reach its start state")
				return
			}
		}
		set := w.GetSet("web")
		var unused []*appsv1.ControllerRevision
		for _, rev := range world.RevisionsOf(w.Srv.Snap(), world.NS) {
			if rev.Name != set.Status.CurrentRevision && rev.Name != set.Status.UpdateRevision {
				unused = append(unused, rev)
			}
		}
		sort.Slice(unused, func(i, j int) bool { return unused[i].Revision < unused[j].Revision })
		if len(unused) < 3 || k >= len(unused) {
			f.res.Inconclusive = append(f.res.Inconclusive, fmt.Sprintf("bulk trim scenario: %d unused revisions, wanted 3", len(unused)))
			return
		}
		w.EditSet("web", func(s *asv1.StatefulSet) { s.Spec.RevisionHistoryLimit = world.I32(limit) })
		w.DeliverAll()
		r.Trace = append(r.Trace, fmt.Sprintf("directed bulk trim: limit 10 -> %d with %d unused revisions, delete of candidate %d (%s) answered with %s/%s", limit, len(unused), k, unused[k].Name, kind, mode))
		w.Srv.AddFault(&simapi.Fault{Identity: "delete|controllerrevisions||" + unused[k].Name, Occ: 0, Kind: kind, Mode: mode})
		rec := r.Reconcile("web")
		w.Srv.ClearFaults()
		fired := false
		for _, c := range rec.Calls {
			if c.Injected != "" {
				fired = true
			}
		}
		if !fired {
			f.res.Inconclusive = append(f.res.Inconclusive, "bulk trim scenario: the faulted delete was never issued")
			return
		}
		f.st.Inc("bulk_trim_fault_scenarios")
		w.DeliverAll()
		r.Calm(1)
	}
}

// longSetName returns a valid DNS-1123 name of n characters.
func longSetName(n int) string {
	const unit = "tidb-cluster-production-"
	b := []byte{}
	for len(b) < n {
		b = append(b, unit...)
	}
	b = b[:n]
	if b[n-1] == '-' {
		b[n-1] = 'x'
	}
	return string(b)
}

func init() {
	directedC06 = []func(*fam){
		claimHistory(asv1.OrderedReadyPodManagement, "web", 1), claimHistory(asv1.ParallelPodManagement, "web", 0),
		claimHistory(asv1.OrderedReadyPodManagement, "db-1", 2), claimHistory(asv1.ParallelPodManagement, "a-0", 1),
		claimHistoryX(asv1.OrderedReadyPodManagement, "web", 1, true), claimHistoryX(asv1.ParallelPodManagement, "web", 2, true),
		claimFaults("500"), claimFaults("exists"), claimFaults("timeout"),
		// set names so long that <set>-<ordinal> no longer fits a DNS label (63): name, hostname and claim names
		// must still be exactly S-i / T-S-i, and distinct per ordinal (names above 63 are not used: the fake clientset
		// panics on the upgrade-marker selector value where a real server answers 400)
		claimHistory(asv1.OrderedReadyPodManagement, longSetName(62), 1), claimHistory(asv1.ParallelPodManagement, longSetName(63), 0),
		claimHistory(asv1.ParallelPodManagement, longSetName(61), 2),
	}
	directedC13 = []func(*fam){bulkTrimFault(0, "500", "before", 0), bulkTrimFault(1, "500", "before", 0), bulkTrimFault(0, "timeout", "before", 1),
		bulkTrimFault(0, "conflict", "before", 0), bulkTrimFault(1, "timeout", "after", 0), bulkTrimFault(0, "500", "after", 1)}
	directedC08 = []func(*fam){collisionScenario(false), collisionScenario(true),
		collisionScenario2(false, true, true), collisionScenario2(false, true, false), collisionScenario2(false, false, true), collisionScenario2(true, true, true),
		rollbackFaultScenario("conflict", "before", false, false), rollbackFaultScenario("conflict", "before", true, false), rollbackFaultScenario("500", "before", false, false),
		rollbackFaultScenario("timeout", "after", false, false), rollbackFaultScenario("500", "after", true, false),
		rollbackFaultScenario("conflict", "before", false, true), rollbackFaultScenario("conflict", "before", true, true), rollbackFaultScenario("500", "before", false, true),
		rollbackFaultScenario("timeout", "after", false, true)}
	directedC12 = []func(*fam){staleStatusScenario(asv1.ParallelPodManagement, "labels"), staleStatusScenario(asv1.OrderedReadyPodManagement, "labels"),
		staleStatusScenario(asv1.ParallelPodManagement, "generation"), staleStatusScenario(asv1.OrderedReadyPodManagement, "generation"),
		staleStatusRegress(asv1.ParallelPodManagement), staleStatusRegress(asv1.OrderedReadyPodManagement)}
}
