package main

import (
	"crypto/sha1"
	"encoding/json"
	"fmt"
	"hash/fnv"
	"os"
	"regexp"
	"sort"
	"strings"

	asv1 "github.com/pingcap/advanced-statefulset/client/apis/apps/v1"
	"github.com/pingcap/advanced-statefulset/client/apis/apps/v1/helper"
	appsv1 "k8s.io/api/apps/v1"
	corev1 "k8s.io/api/core/v1"
	apiequality "k8s.io/apimachinery/pkg/api/equality"
	"k8s.io/apimachinery/pkg/api/meta"
	metav1 "k8s.io/apimachinery/pkg/apis/meta/v1"
	"k8s.io/apimachinery/pkg/runtime"

	"verif/harness/mon"
	"verif/harness/refspec"
	"verif/harness/simapi"
	"verif/harness/world"
)

// C09: fault enumeration with a differential fault-free twin.

type c09Entry struct {
	Name  string
	Build func(r *world.Runner) string // builds the prefix, returns the set whose next reconcile is the target
}

func healthyPod(set *asv1.StatefulSet, ord int, rev string, v int, claims []string) *corev1.Pod {
	name := fmt.Sprintf("%s-%d", set.Name, ord)
	return world.NewPod(world.PodOpts{Name: name, Labels: set.Spec.Selector.MatchLabels, Owner: world.SetOwnerRef(set), Phase: corev1.PodRunning, Scheduled: true, Ready: true,
		Revision: rev, PodNameLbl: name, TemplateV: v, Claims: claims, SetName: set.Name, Ordinal: ord})
}

// converge runs calm rounds (no monitors) until the set is converged.
func convergeQuietly(r *world.Runner) {
	saved := r.OnRecord
	r.OnRecord = nil
	r.Calm(1)
	r.OnRecord = saved
}

func c09Directed() []c09Entry {
	mk := func(name string, o world.SetOpts, after func(r *world.Runner)) c09Entry {
		return c09Entry{Name: name, Build: func(r *world.Runner) string {
			o.Name = "web"
			r.Sets = []string{"web"}
			if o.Partition == nil && o.Strategy != asv1.OnDeleteStatefulSetStrategyType {
				p := int32(0)
				o.Partition = &p
			}
			r.W.Srv.Seed(simapi.Sets, world.NewSet(o))
			r.W.DeliverAll()
			if after != nil {
				after(r)
			}
			return "web"
		}}
	}
	edit := func(r *world.Runner, fn func(s *asv1.StatefulSet)) { r.W.EditSet("web", fn) }
	var out []c09Entry
	for _, pol := range []asv1.PodManagementPolicyType{asv1.ParallelPodManagement, asv1.OrderedReadyPodManagement} {
		pol := pol
		out = append(out,
			mk("fresh set with claims on an empty cluster/"+string(pol), world.SetOpts{Replicas: 3, Slots: []int32{1}, Policy: pol, Claims: []string{"data"}, HistLimit: 2}, nil),
			mk("template change on a healthy set/"+string(pol), world.SetOpts{Replicas: 3, Policy: pol, HistLimit: 2}, func(r *world.Runner) {
				convergeQuietly(r)
				edit(r, func(s *asv1.StatefulSet) { s.Spec.Template = world.Template(s.Spec.Selector.MatchLabels, 1) })
			}),
			mk("rollback to an earlier template (renumber)/"+string(pol), world.SetOpts{Replicas: 2, Policy: pol, HistLimit: 5}, func(r *world.Runner) {
				convergeQuietly(r)
				edit(r, func(s *asv1.StatefulSet) { s.Spec.Template = world.Template(s.Spec.Selector.MatchLabels, 1) })
				convergeQuietly(r)
				edit(r, func(s *asv1.StatefulSet) { s.Spec.Template = world.Template(s.Spec.Selector.MatchLabels, 0) })
			}),
			mk("scale-in at a slot/"+string(pol), world.SetOpts{Replicas: 4, Policy: pol, Claims: []string{"data"}, HistLimit: 2}, func(r *world.Runner) {
				convergeQuietly(r)
				edit(r, func(s *asv1.StatefulSet) { world.SetSlots(s, []int32{1}); s.Spec.Replicas = world.I32(3) })
			}),
			mk("failed pod replacement/"+string(pol), world.SetOpts{Replicas: 3, Policy: pol, Claims: []string{"data"}, HistLimit: 2}, func(r *world.Runner) {
				convergeQuietly(r)
				r.W.Kubelet("web-1", "fail")
			}),
			mk("history truncation after several template edits/"+string(pol), world.SetOpts{Replicas: 1, Policy: pol, HistLimit: 0}, func(r *world.Runner) {
				convergeQuietly(r)
				edit(r, func(s *asv1.StatefulSet) { s.Spec.RevisionHistoryLimit = world.I32(5) })
				for _, v := range []int{1, 2, 3} {
					edit(r, func(s *asv1.StatefulSet) { s.Spec.Template = world.Template(s.Spec.Selector.MatchLabels, v) })
					convergeQuietly(r)
				}
				edit(r, func(s *asv1.StatefulSet) { s.Spec.RevisionHistoryLimit = world.I32(0) })
			}),
		)
	}
	out = append(out,
		mk("orphan adoption, release of a non-matching pod, identity update", world.SetOpts{Replicas: 4, Policy: asv1.ParallelPodManagement, HistLimit: 2}, func(r *world.Runner) {
			convergeQuietly(r)
			w := r.W
			// two orphans: the fresh confirmation is asked for once per reconcile and its answer must hold for both
			w.Srv.Mutate(simapi.Pods, world.NS, "web-0", func(o runtime.Object) { o.(*corev1.Pod).OwnerReferences = nil })
			w.Srv.Mutate(simapi.Pods, world.NS, "web-2", func(o runtime.Object) { o.(*corev1.Pod).OwnerReferences = nil })
			// (the released pod has the highest ordinal: its name stays squatted, and a Parallel pass stops at the
			// failed re-create of that ordinal, which must come after the identity update of a lower one)
			w.Srv.Mutate(simapi.Pods, world.NS, "web-3", func(o runtime.Object) { o.(*corev1.Pod).Labels["app"] = "other" })
			w.Srv.Mutate(simapi.Pods, world.NS, "web-1", func(o runtime.Object) { delete(o.(*corev1.Pod).Labels, asv1.StatefulSetPodNameLabel) })
		}),
		mk("release of a pod that stopped matching, beyond the range (nothing else fails if the release does)", world.SetOpts{Replicas: 2, Policy: asv1.ParallelPodManagement, HistLimit: 2}, func(r *world.Runner) {
			convergeQuietly(r)
			w := r.W
			set := w.GetSet("web")
			p := healthyPod(set, 5, set.Status.UpdateRevision, 0, nil)
			p.Labels["app"] = "other"
			w.Srv.Seed(simapi.Pods, p)
		}),
		mk("revision name collision with an unlisted object holding the same data (create answered AlreadyExists, then read back)", world.SetOpts{Replicas: 1, Policy: asv1.ParallelPodManagement, HistLimit: 5}, func(r *world.Runner) {
			convergeQuietly(r)
			w := r.W
			// the set's only revision drops out of its history (no selector labels, no owner) but keeps its name
			for _, rev := range world.RevisionsOf(w.Srv.Snap(), world.NS) {
				w.Srv.Mutate(simapi.Revisions, world.NS, rev.Name, func(o runtime.Object) {
					c := o.(*appsv1.ControllerRevision)
					c.OwnerReferences = nil
					c.Labels = map[string]string{"unrelated": "x"}
				})
			}
		}),
		mk("revision name collision with an unlisted object holding other data (collision count, second name)", world.SetOpts{Replicas: 1, Policy: asv1.ParallelPodManagement, HistLimit: 5}, func(r *world.Runner) {
			convergeQuietly(r)
			w := r.W
			for _, rev := range world.RevisionsOf(w.Srv.Snap(), world.NS) {
				w.Srv.Mutate(simapi.Revisions, world.NS, rev.Name, func(o runtime.Object) {
					c := o.(*appsv1.ControllerRevision)
					c.OwnerReferences = nil
					c.Labels = map[string]string{"unrelated": "x"}
					c.Data = runtime.RawExtension{Raw: []byte(`{"spec":{"template":{"$patch":"replace","metadata":{"labels":{"x":"y"}}}}}`)}
				})
			}
		}),
		mk("migrated revisions: label sync and adoption of marker orphans", world.SetOpts{Replicas: 2, Policy: asv1.OrderedReadyPodManagement, HistLimit: 5}, func(r *world.Runner) {
			convergeQuietly(r)
			w := r.W
			// turn the set's own revisions into migration leftovers: orphan, marker label, no selector labels
			for _, rev := range world.RevisionsOf(w.Srv.Snap(), world.NS) {
				w.Srv.Mutate(simapi.Revisions, world.NS, rev.Name, func(o runtime.Object) {
					c := o.(*appsv1.ControllerRevision)
					c.OwnerReferences = nil
					delete(c.Labels, "app")
					c.Labels[helper.UpgradeToAdvancedStatefulSetAnn] = "web"
				})
			}
		}),
	)
	return out
}

func c09Sampled(i int) c09Entry {
	return c09Entry{Name: fmt.Sprintf("sampled scenario %d", i), Build: func(r *world.Runner) string {
		r.Cfg.Faults, r.Cfg.Restarts, r.Cfg.Pause, r.Cfg.DeleteSet = false, false, false, false
		r.Cfg.SecondSet = false // overlapping selectors make adoption of shared orphans a race by nature: no determined final state
		r.Cfg.StepsLo, r.Cfg.StepsHi = 3, 25
		r.Setup()
		r.Hostile()
		r.W.DeliverAll()
		return r.Sets[r.Rng.Intn(len(r.Sets))]
	}}
}

type c09Run struct {
	Target      *world.Record
	Recs        []*world.Record
	Quiescent   bool
	Steps       int
	NotConv     string
	Final       string
	FinalDetail []string
	Safety      []mon.Violation
	Trace       []string
	Stuck       string
	Panic       interface{}
	// PrefixSig: the world right before the target reconcile (API objects without server-assigned ids,
	// pending cache events per kind); a faulted run is only compared with its twin if the prefix was reproduced
	PrefixSig  string
	PrefixDump string
}

var c09Volatile = regexp.MustCompile(`"(uid|resourceVersion|creationTimestamp|deletionTimestamp)":"[^"]*",?`)

// c09Canon: JSON of an object without server-assigned ids; the claim volumes of a pod in name order (the
// controller adds them in its own map iteration order).
func c09Canon(o runtime.Object) []byte {
	if p, ok := o.(*corev1.Pod); ok {
		p = p.DeepCopy()
		sort.SliceStable(p.Spec.Volumes, func(i, j int) bool { return p.Spec.Volumes[i].Name < p.Spec.Volumes[j].Name })
		o = p
	}
	b, _ := json.Marshal(o)
	return c09Volatile.ReplaceAll(b, nil)
}

func c09PrefixSig(w *world.World) string {
	h := fnv.New64a()
	snap := w.Srv.Snap()
	for _, res := range []simapi.Res{simapi.Sets, simapi.Pods, simapi.PVCs, simapi.Revisions} {
		for _, o := range snap.List(res, "") {
			h.Write(c09Canon(o))
		}
		fmt.Fprintf(h, "|%s pending=%d|", res, w.Pending(res))
	}
	return fmt.Sprintf("%x", h.Sum64())
}

func claimVolumes(p *corev1.Pod) int {
	n := 0
	for _, v := range p.Spec.Volumes {
		if v.PersistentVolumeClaim != nil {
			n++
		}
	}
	return n
}

func revDataHash(r *appsv1.ControllerRevision) string {
	return fmt.Sprintf("%x", sha1.Sum(r.Data.Raw))[:10]
}

// c09Fingerprint: the components of the final state that the spec determines.
func c09Fingerprint(snap simapi.Snapshot, sets []string) []string {
	var out []string
	for _, name := range sets {
		o := snap.Get(simapi.Sets, world.NS, name)
		if o == nil {
			out = append(out, "set "+name+" absent")
			continue
		}
		s := o.(*asv1.StatefulSet)
		if s.DeletionTimestamp != nil {
			out = append(out, "set "+name+" deleting")
			continue
		}
		rolling := s.Spec.UpdateStrategy.Type == asv1.RollingUpdateStatefulSetStrategyType && s.Spec.UpdateStrategy.RollingUpdate != nil
		part := 0
		if rolling && s.Spec.UpdateStrategy.RollingUpdate.Partition != nil && *s.Spec.UpdateStrategy.RollingUpdate.Partition > 0 {
			part = int(*s.Spec.UpdateStrategy.RollingUpdate.Partition)
		}
		st := s.Status
		out = append(out, fmt.Sprintf("set %s status replicas=%d ready=%d update=%s", name, st.Replicas, st.ReadyReplicas, st.UpdateRevision))
		if rolling {
			out = append(out, fmt.Sprintf("set %s status updated=%d", name, st.UpdatedReplicas))
		}
		for _, p := range world.PodsOf(snap, world.NS) {
			c := world.ControllerOf(p)
			if c == nil || c.UID != s.UID {
				continue
			}
			_, ord, _ := refspec.ParsePodName(p.Name)
			line := fmt.Sprintf("pod %s ready=%v terminating=%v identity-label-ok=%v claim-volumes=%d", p.Name, world.IsReady(p), p.DeletionTimestamp != nil,
				p.Labels[asv1.StatefulSetPodNameLabel] == p.Name, claimVolumes(p))
			if rolling && ord >= part {
				line += " rev=" + p.Labels[appsv1.StatefulSetRevisionLabel]
			}
			out = append(out, line)
		}
		for _, rev := range world.RevisionsOf(snap, world.NS) {
			if c := world.ControllerOf(rev); c != nil && c.UID == s.UID {
				var lk []string
				for k, v := range rev.Labels {
					lk = append(lk, k+"="+v)
				}
				sort.Strings(lk)
				out = append(out, fmt.Sprintf("revision %s data=%s of %s labels=%v", rev.Name, revDataHash(rev), name, lk))
			}
		}
	}
	for _, o := range snap.List(simapi.PVCs, world.NS) {
		out = append(out, "claim "+o.(*corev1.PersistentVolumeClaim).Name)
	}
	sort.Strings(out)
	return out
}

var c09Safety = []func(*mon.View, mon.Stats) []mon.Violation{mon.CheckC03, mon.CheckC04, mon.CheckC05, mon.CheckC07, mon.CheckC10, mon.CheckC12, mon.CheckC13, mon.CheckC06}

// c09NilOnError: the target reconcile runs under the generated fakes' convention for failed calls (nil object
// next to the error) instead of the real typed clients' (zero-valued object); retry closures look at that object.
var c09NilOnError bool

// c09Execute builds the prefix, runs the target reconcile through the worker path with the
// given fault, then the event-driven recovery loop to quiescence.
func c09Execute(w *world.World, seed int64, e c09Entry, f1, f2 *simapi.Fault) *c09Run {
	out := &c09Run{}
	if f1 == nil {
		w.Reset() // fault-free twin of a new corpus entry: fresh controller object
	} else {
		w.ResetLight()
	}
	r := world.NewRunner(w, seed, world.DefaultCfg())
	scratch := mon.Stats{}
	target := e.Build(r)
	key := world.NS + "/" + target
	if os.Getenv("C09_DEBUG") != "" {
		if s := w.GetSet(target); s != nil {
			b, _ := json.Marshal(s.Spec.UpdateStrategy)
			fmt.Fprintf(os.Stderr, "C09_DEBUG after build (fault=%v): strategy=%s replicas=%d trace-len=%d\n", f1 != nil, b, *s.Spec.Replicas, len(r.Trace))
			if os.Getenv("C09_DEBUG") == "2" {
				fmt.Fprintln(os.Stderr, strings.Join(r.Trace, "\n"))
			}
		}
	}
	w.Srv.RunGC()
	w.DeliverAll()
	others := []string{}
	for _, s := range r.Sets {
		if s != target {
			others = append(others, world.NS+"/"+s)
		}
	}
	w.ResetQueue(append([]string{key}, others...)...)
	out.PrefixSig = c09PrefixSig(w)
	if os.Getenv("C09_DEBUG") != "" {
		snap := w.Srv.Snap()
		for _, res := range []simapi.Res{simapi.Sets, simapi.Pods, simapi.PVCs, simapi.Revisions} {
			for _, o := range snap.List(res, "") {
				out.PrefixDump += string(c09Canon(o)) + "\n"
			}
			out.PrefixDump += fmt.Sprintf("|%s pending=%d|\n", res, w.Pending(res))
		}
	}
	observe := func(rec *world.Record) {
		out.Recs = append(out.Recs, rec)
		if rec.Panic != nil {
			out.Panic = rec.Panic
		}
		v := mon.NewView(rec)
		for _, chk := range c09Safety {
			out.Safety = append(out.Safety, chk(v, scratch)...)
		}
		s := fmt.Sprintf("reconcile #%d %s", rec.ID, rec.Key)
		for _, c := range rec.Calls {
			if c.IsWrite() || !c.OK() {
				s += "\n      " + c.String()
			}
		}
		if rec.Err != nil {
			s += "\n      => failed, requeued with back-off"
		}
		if rec.Crash {
			s += "\n      => process died (injected)"
		}
		out.Trace = append(out.Trace, s)
	}
	w.Srv.ClearFaults()
	if f1 != nil {
		g := *f1
		g.Fired = false
		g.Rec = 0
		w.Srv.AddFault(&g)
	}
	// a conflict is followed by the informer catching up while the reconcile is still in its retry loop
	// (the only situation in which such a retry can succeed)
	w.CatchUp = f1 != nil && f1.Kind == "conflict"
	w.Srv.NilOnError = c09NilOnError
	out.Target = w.WorkerStep()
	w.Srv.NilOnError = false
	w.CatchUp = false
	observe(out.Target)
	w.Srv.ClearFaults()
	if f2 != nil {
		g := *f2
		g.Fired = false
		g.Rec = 0
		w.Srv.AddFault(&g)
	}
	if out.Target.Crash {
		w.Restart()
		out.Trace = append(out.Trace, "restart")
	}
	failStreak := map[string]int{}
	lastSig := map[string]string{}
	for out.Steps = 0; out.Steps < 500; out.Steps++ {
		w.Srv.RunGC()
		w.Srv.SweepDangling()
		r.CalmPremise()
		for _, n := range w.PodNames() {
			w.Kubelet(n, "settle")
		}
		w.DeliverAll()
		if w.Q.Len() == 0 {
			if at, ok := w.Q.NextReady(); ok {
				w.Q.Advance(at)
				continue
			}
			if w.PendingTotal() == 0 {
				out.Quiescent = true
				break
			}
			continue
		}
		rec := w.WorkerStep()
		observe(rec)
		if rec.Crash {
			w.Srv.ClearFaults()
			w.Restart()
			out.Trace = append(out.Trace, "restart")
			continue
		}
		if rec.Err != nil {
			sig := fmt.Sprint(len(rec.Writes()))
			if lastSig[rec.Key] == sig || failStreak[rec.Key] == 0 {
				failStreak[rec.Key]++
			}
			lastSig[rec.Key] = sig
			if failStreak[rec.Key] >= 30 {
				out.Stuck = fmt.Sprintf("key %s failed %d consecutive reconciles", rec.Key, failStreak[rec.Key])
				break
			}
		} else {
			failStreak[rec.Key] = 0
		}
	}
	snap := w.Srv.Snap()
	for _, s := range r.LiveSets() {
		if why := world.Converged(snap, s); why != "" {
			out.NotConv = s.Name + ": " + why
		}
	}
	out.FinalDetail = c09Fingerprint(snap, r.Sets)
	out.Final = strings.Join(out.FinalDetail, "\n")
	return out
}

func runC09(ctx *Ctx) *Result {
	res := newResult()
	srv := simapi.New()
	w := world.New(srv)
	directed := c09Directed()
	seen := map[string]int{}
	kinds := []string{"500", "timeout", "conflict", "notfound", "exists"}
	for i := ctx.Lo; i < ctx.hi(); i++ {
		if !ctx.mine(i) {
			continue
		}
		var e c09Entry
		if i < len(directed) {
			e = directed[i]
		} else {
			e = c09Sampled(i)
		}
		seed := ctx.caseSeed(i)
		if w.Restarts > 400 {
			srv = simapi.New()
			w = world.New(srv)
		}
		twin := c09Execute(w, seed, e, nil, nil)
		res.Evaluations++
		res.Stats["corpus_entries"]++
		if twin.Panic != nil {
			res.Inconclusive = append(res.Inconclusive, fmt.Sprintf("entry %q: fault-free run panicked: %v", e.Name, twin.Panic))
			continue
		}
		if !twin.Quiescent || twin.NotConv != "" || twin.Stuck != "" {
			// the fault-free run itself does not converge: that is C02's business, not a fault effect
			res.Stats["entries_skipped_twin_not_converged"]++
			continue
		}
		twinSafety := map[string]bool{}
		for _, v := range twin.Safety {
			twinSafety[v.Prop+"/"+v.Clause] = true
		}
		report := func(clause, msg string, plan string, run *c09Run) {
			seen[clause]++
			if seen[clause] <= 2 {
				tr := append([]string{"corpus entry: " + e.Name, "fault plan: " + plan}, tail(run.Trace, 60)...)
				res.Violations = append(res.Violations, Witness{Prop: "C09", Clause: clause, Msg: msg, Family: "c09", Case: i, Seed: ctx.Seed, Tier: ctx.Tier, Trace: tr})
			}
		}
		type ident struct {
			id, verb string
			res      simapi.Res
			occ      int
			write    bool
		}
		var ids []ident
		for _, c := range twin.Target.Calls {
			ids = append(ids, ident{c.Identity(), c.Verb, c.Res, c.Occ, c.IsWrite()})
			res.Stats["target_calls_"+c.Verb+"_"+string(c.Res)]++
		}
		res.sample(2, map[string]interface{}{"corpus_entry": e.Name, "target_reconcile_calls": len(ids), "twin_trace_head": twin.Trace[:min(len(twin.Trace), 2)]})
		check := func(run *c09Run, f1 *simapi.Fault, plan string, single bool) {
			res.Evaluations++
			if run.PrefixSig != twin.PrefixSig {
				// the code under test iterates maps (claims of a pod); should that ever make the prefix of a
				// faulted run differ from its twin's, the two are not comparable: no verdict for this plan
				res.Stats["plans_skipped_prefix_not_reproduced"]++
				if os.Getenv("C09_DEBUG") != "" {
					fmt.Fprintf(os.Stderr, "C09_DEBUG prefix mismatch entry=%q plan=%s\n%s\n----\n%s\n", e.Name, plan, twin.PrefixDump, run.PrefixDump)
				}
				return
			}
			if run.Panic != nil {
				report("panicked", fmt.Sprintf("a reconcile panicked after the fault: %v", run.Panic), plan, run)
				return
			}
			tr := run.Target
			var fired *simapi.Call
			for _, c := range tr.Calls {
				if c.Injected != "" {
					fired = c
				}
			}
			if fired == nil {
				res.Stats["faults_not_reached"]++
				return
			}
			res.Stats["faults_fired"]++
			// (1) reported: the failure must lead to a scheduled retry unless absorbed inside the reconcile
			if !tr.Crash && single {
				absorbed := false
				for _, c := range tr.Calls {
					// absorbed = the same write was re-issued inside the reconcile, with the same intent, and succeeded
					if c.Seq > fired.Seq && c.Identity() == fired.Identity() && c.OK() && sameIntent(fired, c) {
						absorbed = true
					}
				}
				// by design: a pod that vanished under an adopt/release patch is ignored; a revision that
				// "already exists" with identical data is simply used (somebody else recorded the same template)
				byDesign := (fired.Res == simapi.Pods && fired.Verb == "patch" && fired.Reason == metav1.StatusReasonNotFound) ||
					(fired.Res == simapi.Revisions && fired.Verb == "create" && fired.Reason == metav1.StatusReasonAlreadyExists)
				requeued := false
				for _, op := range tr.QOps {
					if op.Op == "addRateLimited" {
						requeued = true
					}
				}
				if !requeued && !absorbed && !byDesign {
					report("failure-not-reported", fmt.Sprintf("%s failed (%s) but the reconcile was not put back for retry", fired.Identity(), fired.Injected), plan, run)
				}
				if requeued {
					res.Stats["failures_reported"]++
				} else {
					res.Stats["failures_absorbed_or_ignored_by_design"]++
				}
			}
			// (2) recoverable: same final state as the fault-free twin
			if run.Stuck != "" {
				report("stuck-after-fault", run.Stuck+" with unchanged state after the faults stopped", plan, run)
				return
			}
			if !run.Quiescent {
				report("no-quiescence-after-fault", fmt.Sprintf("no quiescence within %d recovery steps", run.Steps), plan, run)
				return
			}
			if run.NotConv != "" {
				report("not-converged-after-fault", "quiescent but not converged after the fault: "+run.NotConv, plan, run)
				return
			}
			a, b := twin.FinalDetail, run.FinalDetail
			if f1 != nil && f1.Kind == "notfound" {
				// a consistent NotFound means somebody really removed the pod: the controller re-creates it
				// together with claims the removed (e.g. adopted, claim-less) pod never had
				// ... and at whatever revision its ordinal calls for now, while the twin kept (adopted) the old
				// pod with its old revision, which in turn keeps that revision alive in the history
				a, b = weakenForRemovedPod(a), weakenForRemovedPod(b)
			}
			if strings.Join(a, "\n") != strings.Join(b, "\n") {
				report("final-state-differs-from-twin", "final state differs from the fault-free run: "+diffLines(a, b), plan, run)
			}
			// (3) harmless: safety oracles on the partial work
			for _, v := range run.Safety {
				if !twinSafety[v.Prop+"/"+v.Clause] {
					report("unsafe-partial-work", fmt.Sprintf("after the fault the run violated %s", v), plan, run)
					break
				}
			}
		}
		checkReportedOnly := func(run *c09Run, f1 *simapi.Fault, plan string) {
			res.Evaluations++
			tr := run.Target
			fired := false
			for _, c := range tr.Calls {
				if c.Injected != "" {
					fired = true
				}
			}
			if !fired || tr.Crash {
				return
			}
			res.Stats["faults_fired"]++
			requeued := false
			for _, op := range tr.QOps {
				if op.Op == "addRateLimited" {
					requeued = true
				}
			}
			writesAfter := 0
			seenFault := false
			for _, c := range tr.Calls {
				if c.Injected != "" {
					seenFault = true
					continue
				}
				if seenFault && c.IsWrite() {
					writesAfter++
				}
			}
			if !requeued {
				report("failure-not-reported", fmt.Sprintf("the uncached read reported the set gone (%s) but the reconcile carried on (%d writes afterwards) and was not put back for retry", f1.Identity, writesAfter), plan, run)
			}
		}
		for _, id := range ids {
			for _, kind := range kinds {
				if !simapi.ValidKind(id.verb, kind) {
					continue
				}
				setGone := kind == "notfound" && id.res == simapi.Sets && id.verb == "get"
				if kind == "notfound" && !setGone && !(id.res == simapi.Pods || (id.res == simapi.Revisions && id.verb == "delete")) {
					continue // a really deleted revision gives a trivially different final state
				}
				modes := []string{"before", "crash-before"}
				if id.write && (kind == "500" || kind == "timeout") {
					modes = []string{"before", "after", "crash-before", "crash-after"}
				}
				if kind != "500" && kind != "timeout" {
					modes = []string{"before"}
				}
				for _, mode := range modes {
					f := &simapi.Fault{Identity: id.id, Occ: id.occ, Kind: kind, Mode: mode}
					run := c09Execute(w, seed, e, f, nil)
					res.Stats["single_fault_runs"]++
					res.Stats["fault_"+kind+"_"+mode]++
					res.sig(e.Name + f.String())
					if setGone {
						// the uncached read says the set is gone (it really is): the reconcile must not carry on
						// as if nothing happened; the final state is that of a deleted set, no twin to compare with
						res.Stats["faults_set_gone_at_fresh_read"]++
						checkReportedOnly(run, f, f.String())
						continue
					}
					check(run, f, f.String(), true)
					if i < len(directed) && !strings.HasPrefix(mode, "crash") {
						c09NilOnError = true
						runN := c09Execute(w, seed, e, f, nil)
						c09NilOnError = false
						res.Stats["single_fault_runs_nil_object_convention"]++
						res.sig(e.Name + f.String() + "/nil")
						check(runN, f, f.String()+" (failed calls return nil objects, as the generated fakes do)", true)
					}
					// pairs: a second fault in the retry
					if run.Target.Err != nil || run.Target.Crash {
						var retry *world.Record
						for _, rc := range run.Recs[1:] {
							if rc.Key == run.Target.Key {
								retry = rc
								break
							}
						}
						if retry == nil {
							continue
						}
						every := ctx.Tier == "thorough" && i < len(directed)
						for ci, c := range retry.Calls {
							if !every && (ci+len(f.Identity)+i)%7 != 0 {
								continue
							}
							k2 := "500"
							m2 := []string{"before", "after", "crash-before"}[(ci+i)%3]
							if !c.IsWrite() && m2 == "after" {
								m2 = "before"
							}
							f2 := &simapi.Fault{Identity: c.Identity(), Occ: c.Occ, Kind: k2, Mode: m2}
							run2 := c09Execute(w, seed, e, f, f2)
							res.Stats["double_fault_runs"]++
							res.sig(e.Name + f.String() + f2.String())
							check(run2, f, f.String()+" then "+f2.String(), false)
						}
					}
				}
			}
		}
	}
	for k, n := range seen {
		res.Stats["violations_"+k] = n
	}
	if sk := res.Stats["plans_skipped_prefix_not_reproduced"]; sk*20 > res.Evaluations {
		res.Inconclusive = append(res.Inconclusive, fmt.Sprintf("%d of %d fault plans had no verdict because the scenario prefix was not reproduced", sk, res.Evaluations))
	}
	return res
}

// sameIntent tells whether the successful call b achieved what the failed call a of the same identity
// asked for. The two requests need not be byte-equal: a retry is based on a re-read object that may
// carry changes made by others in the meantime (that is what the conflict was about); what must be
// the same is the part the controller wanted to change.
func sameIntent(a, b *simapi.Call) bool {
	if a.Verb == "patch" || a.Verb == "delete" || a.Verb == "get" || a.Verb == "list" {
		return string(a.Patch) == string(b.Patch)
	}
	if a.Obj == nil || b.After == nil {
		return a.Obj == nil && b.Obj == nil
	}
	switch want := a.Obj.(type) {
	case *asv1.StatefulSet:
		got, ok := b.After.(*asv1.StatefulSet)
		if a.Sub == "status" {
			return ok && apiequality.Semantic.DeepEqual(want.Status, got.Status)
		}
		return ok && apiequality.Semantic.DeepEqual(want.Spec, got.Spec)
	case *corev1.Pod:
		got, ok := b.After.(*corev1.Pod)
		if !ok {
			return false
		}
		vols := func(p *corev1.Pod) string {
			var l []string
			for _, v := range p.Spec.Volumes {
				if v.PersistentVolumeClaim != nil {
					l = append(l, v.Name+"="+v.PersistentVolumeClaim.ClaimName)
				}
			}
			sort.Strings(l)
			return strings.Join(l, ",")
		}
		return want.Labels[asv1.StatefulSetPodNameLabel] == got.Labels[asv1.StatefulSetPodNameLabel] && vols(want) == vols(got)
	case *appsv1.ControllerRevision:
		got, ok := b.After.(*appsv1.ControllerRevision)
		if !ok || want.Revision != got.Revision {
			return false
		}
		for k, v := range want.Labels {
			if got.Labels[k] != v {
				return false
			}
		}
		return true
	}
	x, y := a.Obj.DeepCopyObject(), b.Obj.DeepCopyObject()
	for _, o := range []runtime.Object{x, y} {
		m, _ := meta.Accessor(o)
		m.SetResourceVersion("")
		m.SetManagedFields(nil)
	}
	return apiequality.Semantic.DeepEqual(x, y)
}

func weakenForRemovedPod(l []string) []string {
	var out []string
	for _, x := range dropPrefix(dropPrefix(l, "claim "), "revision ") {
		if strings.Contains(x, " status updated=") {
			continue
		}
		if i := strings.Index(x, " rev="); i >= 0 && strings.HasPrefix(x, "pod ") {
			x = x[:i]
		}
		out = append(out, x)
	}
	return out
}

func dropPrefix(l []string, p string) []string {
	var out []string
	for _, x := range l {
		if !strings.HasPrefix(x, p) {
			out = append(out, x)
		}
	}
	return out
}

func diffLines(a, b []string) string {
	am, bm := map[string]bool{}, map[string]bool{}
	for _, x := range a {
		am[x] = true
	}
	for _, x := range b {
		bm[x] = true
	}
	var d []string
	for _, x := range a {
		if !bm[x] {
			d = append(d, "twin only: "+x)
		}
	}
	for _, x := range b {
		if !am[x] {
			d = append(d, "faulted only: "+x)
		}
	}
	if len(d) > 8 {
		d = d[:8]
	}
	return strings.Join(d, "; ")
}

func init() {
	nd := len(c09Directed())
	register(&Check{Prop: "C09", Level: "fault_enumeration",
		Rule:   fmt.Sprintf("corpus of (prefix -> target reconcile) pairs: %d directed entries (fresh set with claims, template change, rollback/renumber, slot scale-in, failed-pod replacement, history truncation, adoption/release/identity update, migrated-revision label sync + adoption; both policies) plus sampled hostile scenarios; the fault-free twin yields the call identities of the target reconcile; then EVERY identity x applicable error kind (server error, timeout, conflict, not-found, already-exists; consistent faults) x {before, applied-then-error, process death before, process death after} is injected into the target reconcile run through the real worker path; for the directed entries every non-crash fault also under the generated fakes' convention for failed calls (nil object instead of a zero-valued one); second faults in the retry reconcile are enumerated (thorough, directed corpus) or sampled; after the fault the event-driven loop (ordered cache delivery -> real handlers -> virtual-time queue -> processNextWorkItem) runs to quiescence; oracles: failure reported (retry scheduled), recovery (quiescent, converged, final state equal to the twin on the spec-determined components, no key failing 30 times in a row), harmlessness (safety monitors C03-C07, C10, C12, C13 armed on the partial work); distinct = distinct (entry, fault plan)", nd),
		Assume: append([]string{"crash points are 'before call k' and 'after call k was applied': the controller keeps no state between API calls, so these exhaust the externally distinguishable crash points", "environment chaos stops before the fault so both twins see the same world; the kubelet is co-operative during recovery", "a consistent NotFound is only injected on pods and on revision deletes (elsewhere the final state differs trivially)"}, simAssumptions...),
		Cases:  func(t string) int { return nd + scenarioCases(120, 2400)(t) },
		Run:    runC09,
		Floors: []string{"single_fault_runs", "double_fault_runs", "faults_fired", "failures_reported", "fault_500_crash-after", "fault_conflict_before", "fault_notfound_before", "fault_exists_before",
			"target_calls_patch_pods", "target_calls_patch_controllerrevisions", "target_calls_delete_controllerrevisions", "target_calls_update_controllerrevisions", "target_calls_create_persistentvolumeclaims", "target_calls_delete_pods", "target_calls_update_pods"}})
}
