package main

import (
	"context"
	"encoding/json"
	"fmt"
	"hash/fnv"
	"math/rand"
	"sort"
	"strings"

	asv1 "github.com/pingcap/advanced-statefulset/client/apis/apps/v1"
	"github.com/pingcap/advanced-statefulset/client/apis/apps/v1/helper"
	appsv1 "k8s.io/api/apps/v1"
	corev1 "k8s.io/api/core/v1"
	apiequality "k8s.io/apimachinery/pkg/api/equality"
	metav1 "k8s.io/apimachinery/pkg/apis/meta/v1"
	"k8s.io/apimachinery/pkg/labels"
	"k8s.io/apimachinery/pkg/runtime"
	utilrand "k8s.io/apimachinery/pkg/util/rand"
	"k8s.io/client-go/kubernetes/scheme"

	"verif/harness/simapi"
	"verif/harness/world"
)

// ---------------------------------------------------------------------------
// reference "built-in controller": builds the state the upstream StatefulSet
// controller leaves behind (revisions named/labelled/owned like upstream, pods
// labelled with them).

var builtinPatchCodec = scheme.Codecs.LegacyCodec(appsv1.SchemeGroupVersion)

// builtinPatch is upstream's getPatch over the apps/v1 object and client-go's scheme.
func builtinPatch(set *appsv1.StatefulSet) []byte {
	data, err := runtime.Encode(builtinPatchCodec, set)
	if err != nil {
		panic(err)
	}
	var raw map[string]interface{}
	json.Unmarshal(data, &raw)
	spec := raw["spec"].(map[string]interface{})
	template := spec["template"].(map[string]interface{})
	template["$patch"] = "replace"
	patch, _ := json.Marshal(map[string]interface{}{"spec": map[string]interface{}{"template": template}})
	return patch
}

func builtinRevision(set *appsv1.StatefulSet, revno int64) *appsv1.ControllerRevision {
	data := builtinPatch(set)
	hf := fnv.New32()
	hf.Write(data)
	hf.Write([]byte("0")) // upstream always hashes the collision count (0) along with the data
	hash := utilrand.SafeEncodeString(fmt.Sprint(hf.Sum32()))
	l := map[string]string{"controller.kubernetes.io/hash": hash}
	for k, v := range set.Spec.Template.Labels {
		l[k] = v
	}
	t := true
	return &appsv1.ControllerRevision{
		ObjectMeta: metav1.ObjectMeta{Name: set.Name + "-" + hash, Namespace: set.Namespace, Labels: l,
			OwnerReferences: []metav1.OwnerReference{{APIVersion: "apps/v1", Kind: "StatefulSet", Name: set.Name, UID: set.UID, Controller: &t, BlockOwnerDeletion: &t}}},
		Data: runtime.RawExtension{Raw: data}, Revision: revno,
	}
}

type builtinWorld struct {
	Name       string
	SelShape   string // labels | expressions | both
	Versions   []int
	Replicas   int
	Updated    int // pods (from the top) already at the last revision
	Partition  int
	PreAsts    string // "" | "same" | "stale"
	Claims     bool
	Remigrated bool // some revisions already carry the upgrade marker (earlier migration rolled back)
}

func (b builtinWorld) String() string {
	return fmt.Sprintf("builtin set %s selector=%s template versions=%v replicas=%d updatedFromTop=%d partition=%d preexisting-advanced=%q claims=%v remigrated=%v", b.Name, b.SelShape, b.Versions, b.Replicas, b.Updated, b.Partition, b.PreAsts, b.Claims, b.Remigrated)
}

func genBuiltinWorld(r *rand.Rand) builtinWorld {
	b := builtinWorld{Name: []string{"web", "db-1"}[r.Intn(2)], SelShape: []string{"labels", "expressions", "both"}[r.Intn(3)], Replicas: r.Intn(5)}
	n := r.Intn(5) // 0..4 revisions beyond... at least 1 when pods exist
	last := -1
	for len(b.Versions) < n {
		v := r.Intn(4)
		if v != last {
			b.Versions = append(b.Versions, v)
			last = v
		}
	}
	if len(b.Versions) == 0 {
		if r.Intn(3) > 0 {
			b.Versions = []int{0}
		} else {
			b.Replicas = 0
		}
	}
	b.Updated = b.Replicas
	if len(b.Versions) > 1 && r.Intn(2) == 0 {
		b.Updated = r.Intn(b.Replicas + 1)
	}
	if r.Intn(3) == 0 {
		b.Partition = r.Intn(b.Replicas + 1)
	}
	b.PreAsts = []string{"", "", "same", "stale"}[r.Intn(4)]
	b.Claims = r.Intn(3) == 0
	b.Remigrated = r.Intn(4) == 0
	return b
}

var tplLabels = map[string]string{"app": "web", "tier": "x"}

// build materialises the world in srv and returns the builtin set as stored.
func (b builtinWorld) build(srv *simapi.Server) *appsv1.StatefulSet {
	sel := &metav1.LabelSelector{}
	switch b.SelShape {
	case "labels":
		sel.MatchLabels = map[string]string{"app": "web", "tier": "x"}
	case "expressions":
		sel.MatchExpressions = []metav1.LabelSelectorRequirement{{Key: "app", Operator: metav1.LabelSelectorOpIn, Values: []string{"web", "other"}}}
	default:
		sel.MatchLabels = map[string]string{"app": "web"}
		sel.MatchExpressions = []metav1.LabelSelectorRequirement{{Key: "tier", Operator: metav1.LabelSelectorOpExists}}
	}
	lastV := 0
	if len(b.Versions) > 0 {
		lastV = b.Versions[len(b.Versions)-1]
	}
	part := int32(b.Partition)
	rep := int32(b.Replicas)
	hl := int32(10)
	set := &appsv1.StatefulSet{
		TypeMeta:   metav1.TypeMeta{APIVersion: "apps/v1", Kind: "StatefulSet"},
		ObjectMeta: metav1.ObjectMeta{Name: b.Name, Namespace: world.NS, Labels: map[string]string{"owner": "team"}, Annotations: map[string]string{"note": "x"}, Generation: 3},
		Spec: appsv1.StatefulSetSpec{Replicas: &rep, Selector: sel, Template: world.Template(tplLabels, lastV), ServiceName: "svc",
			PodManagementPolicy: appsv1.OrderedReadyPodManagement, RevisionHistoryLimit: &hl,
			UpdateStrategy: appsv1.StatefulSetUpdateStrategy{Type: appsv1.RollingUpdateStatefulSetStrategyType, RollingUpdate: &appsv1.RollingUpdateStatefulSetStrategy{Partition: &part}}},
	}
	if b.Claims {
		set.Spec.VolumeClaimTemplates = []corev1.PersistentVolumeClaim{{ObjectMeta: metav1.ObjectMeta{Name: "data"}}}
	}
	stored := srv.Seed(simapi.BuiltinSet, set).(*appsv1.StatefulSet)
	// revisions
	var revs []*appsv1.ControllerRevision
	seen := map[int]bool{}
	for i, v := range b.Versions {
		tmp := stored.DeepCopy()
		tmp.Spec.Template = world.Template(tplLabels, v)
		rev := builtinRevision(tmp, int64(i+1))
		if seen[v] {
			// a rollback re-uses the revision: renumber
			for _, x := range revs {
				if x.Name == rev.Name {
					x.Revision = int64(i + 1)
				}
			}
			continue
		}
		seen[v] = true
		revs = append(revs, rev)
	}
	for i, rev := range revs {
		if b.Remigrated && i%2 == 0 {
			// leftovers of an earlier migration that was rolled back: the revision still carries the marker
			// next to the selector labels the controller synced back
			rev.Labels[helper.UpgradeToAdvancedStatefulSetAnn] = b.Name
		}
		srv.Seed(simapi.Revisions, rev)
	}
	byV := func(v int) string {
		tmp := stored.DeepCopy()
		tmp.Spec.Template = world.Template(tplLabels, v)
		return builtinRevision(tmp, 0).Name
	}
	cur, upd := "", ""
	if len(b.Versions) > 0 {
		upd = byV(lastV)
		cur = upd
		if b.Updated < b.Replicas && len(b.Versions) > 1 {
			cur = byV(b.Versions[len(b.Versions)-2])
		}
	}
	// pods
	t := true
	owner := &metav1.OwnerReference{APIVersion: "apps/v1", Kind: "StatefulSet", Name: b.Name, UID: stored.UID, Controller: &t, BlockOwnerDeletion: &t}
	for ord := 0; ord < b.Replicas && len(b.Versions) > 0; ord++ {
		rev, v := upd, lastV
		if ord < b.Replicas-b.Updated {
			rev, v = cur, b.Versions[len(b.Versions)-2]
		}
		po := world.PodOpts{Name: fmt.Sprintf("%s-%d", b.Name, ord), Labels: tplLabels, Owner: owner, Phase: corev1.PodRunning, Scheduled: true, Ready: true,
			Revision: rev, TemplateV: v, SetName: b.Name, Ordinal: ord}
		po.PodNameLbl = po.Name
		if b.Claims {
			po.Claims = []string{"data"}
			srv.Seed(simapi.PVCs, &corev1.PersistentVolumeClaim{ObjectMeta: metav1.ObjectMeta{Namespace: world.NS, Name: fmt.Sprintf("data-%s-%d", b.Name, ord)}})
		}
		srv.Seed(simapi.Pods, world.NewPod(po))
	}
	srv.Mutate(simapi.BuiltinSet, world.NS, b.Name, func(o runtime.Object) {
		s := o.(*appsv1.StatefulSet)
		n := int32(0)
		if len(b.Versions) > 0 {
			n = rep
		}
		s.Status = appsv1.StatefulSetStatus{ObservedGeneration: 3, Replicas: n, ReadyReplicas: n, CurrentRevision: cur, UpdateRevision: upd,
			CurrentReplicas: n - int32(b.Updated), UpdatedReplicas: int32(b.Updated)}
		if cur == upd {
			s.Status.CurrentReplicas = n
		}
	})
	switch b.PreAsts {
	case "same", "stale":
		a, _ := helper.FromBuiltinStatefulSet(srv.Get(simapi.BuiltinSet, world.NS, b.Name).(*appsv1.StatefulSet))
		a.ObjectMeta = metav1.ObjectMeta{Name: b.Name, Namespace: world.NS}
		if b.PreAsts == "stale" {
			a.Spec.Replicas = world.I32(9)
			a.Spec.Template = world.Template(tplLabels, 3)
		}
		a.Status = asv1.StatefulSetStatus{}
		srv.Seed(simapi.Sets, a)
	}
	return srv.Get(simapi.BuiltinSet, world.NS, b.Name).(*appsv1.StatefulSet)
}

// ---------------------------------------------------------------------------

type upgradeOutcome struct {
	Attempts int
	Final    string // fingerprint of the final state
	Viol     [][2]string
	Calls    []string
	Crashes  int
}

// fingerprint of what the property says must be equal between runs
func upgradeFingerprint(snap simapi.Snapshot, name string) string {
	var b strings.Builder
	if o := snap.Get(simapi.BuiltinSet, world.NS, name); o != nil {
		b.WriteString("builtin-present;")
	}
	if o := snap.Get(simapi.Sets, world.NS, name); o != nil {
		a := o.(*asv1.StatefulSet)
		sp, _ := json.Marshal(a.Spec)
		st, _ := json.Marshal(a.Status)
		fmt.Fprintf(&b, "asts spec=%s status=%s labels=%v ann=%v;", sp, st, a.Labels, a.Annotations)
	}
	for _, rev := range world.RevisionsOf(snap, world.NS) {
		fmt.Fprintf(&b, "rev %s labels=%v owners=%d rev=%d;", rev.Name, rev.Labels, len(rev.OwnerReferences), rev.Revision)
	}
	for _, p := range world.PodsOf(snap, world.NS) {
		fmt.Fprintf(&b, "pod %s labels=%v owners=%d;", p.Name, p.Labels, len(p.OwnerReferences))
	}
	for _, o := range snap.List(simapi.PVCs, world.NS) {
		fmt.Fprintf(&b, "pvc %s;", o.(*corev1.PersistentVolumeClaim).Name)
	}
	return b.String()
}

// runUpgrade builds the world, runs Upgrade with the given faults until it succeeds.
func runUpgrade(srv *simapi.Server, bw builtinWorld, faults []*simapi.Fault, reget bool) upgradeOutcome {
	var out upgradeOutcome
	bad := func(clause, f string, a ...interface{}) {
		out.Viol = append(out.Viol, [2]string{clause, fmt.Sprintf(f, a...)})
	}
	srv.Reset()
	srv.TrimLog()
	srv.SetActor("upgrade-helper")
	sts := bw.build(srv)
	initial := srv.Snap()
	sel, _ := metav1.LabelSelectorAsSelector(sts.Spec.Selector)
	var initialRevs []string
	for _, rev := range world.RevisionsOf(initial, world.NS) {
		if sel.Matches(labels.Set(rev.Labels)) {
			initialRevs = append(initialRevs, rev.Name)
		}
	}
	for _, f := range faults {
		f.Fired = false
		srv.AddFault(f)
	}
	ok := false
	for out.Attempts = 1; out.Attempts <= 8; out.Attempts++ {
		arg := sts.DeepCopy()
		if reget {
			if o := srv.Get(simapi.BuiltinSet, world.NS, bw.Name); o != nil {
				arg = o.(*appsv1.StatefulSet).DeepCopy()
			}
		}
		srv.BeginReconcile(out.Attempts)
		var err error
		crashed := false
		func() {
			defer func() {
				if p := recover(); p != nil {
					if _, is := p.(simapi.CrashSentinel); is {
						crashed = true
						out.Crashes++
						return
					}
					bad("helper-panicked", "Upgrade panicked: %v", p)
					err = fmt.Errorf("panic")
				}
			}()
			_, err = helper.Upgrade(context.TODO(), srv.Kube, srv.PC, arg)
		}()
		srv.EndReconcile()
		if !crashed && err == nil {
			ok = true
			break
		}
	}
	log := srv.Log(0)
	for _, c := range log {
		if c.Actor != "upgrade-helper" {
			continue
		}
		out.Calls = append(out.Calls, c.String())
		if c.IsWrite() && (c.Res == simapi.Pods || c.Res == simapi.PVCs) {
			bad("pod-or-claim-written", "%s", c)
		}
		if c.Res == simapi.BuiltinSet && c.Verb == "delete" {
			if c.DelOpts == nil || c.DelOpts.PropagationPolicy == nil || *c.DelOpts.PropagationPolicy != metav1.DeletePropagationOrphan {
				bad("delete-without-orphan-propagation", "%s carries propagation policy %v", c, c.DelOpts)
			}
			if c.Before == nil && c.Injected == "" {
				continue // already gone
			}
			// state at that moment: reconstruct from the calls before it (the log's After pointers)
			st := stateAt(initial, log, c.Seq)
			a, _ := st.Get(simapi.Sets, world.NS, bw.Name).(*asv1.StatefulSet)
			if a == nil {
				bad("builtin-deleted-before-advanced-exists", "%s issued while no Advanced StatefulSet %s exists", c, bw.Name)
			} else {
				conv, _ := helper.FromBuiltinStatefulSet(sts)
				if !apiequality.Semantic.DeepEqual(conv.Spec, a.Spec) {
					bad("advanced-spec-differs-at-delete", "at the delete of the built-in set the Advanced set's spec differs from the built-in's")
				}
				if !apiequality.Semantic.DeepEqual(conv.Status, a.Status) {
					bad("advanced-status-differs-at-delete", "at the delete of the built-in set the Advanced set's status is %+v, the built-in's %+v", a.Status, conv.Status)
				}
			}
			for _, rn := range initialRevs {
				rev, _ := st.Get(simapi.Revisions, world.NS, rn).(*appsv1.ControllerRevision)
				if rev == nil {
					bad("revision-lost", "revision %s no longer exists when the built-in set is deleted", rn)
					continue
				}
				if rev.Labels[helper.UpgradeToAdvancedStatefulSetAnn] != bw.Name {
					bad("revision-not-marked-at-delete", "revision %s lacks the upgrade marker when the built-in set is deleted (labels %v)", rn, rev.Labels)
				}
				for k := range sts.Spec.Selector.MatchLabels {
					if _, has := rev.Labels[k]; has {
						bad("revision-keeps-selector-label-at-delete", "revision %s still carries selector label %s when the built-in set is deleted", rn, k)
					}
				}
			}
		}
	}
	if !ok {
		bad("never-succeeds", "Upgrade did not succeed within 8 attempts after the faults stopped")
		return out
	}
	srv.RunGC()
	final := srv.Snap()
	for _, p := range world.PodsOf(initial, world.NS) {
		if final.Get(simapi.Pods, world.NS, p.Name) == nil {
			bad("pod-lost", "pod %s did not survive the migration", p.Name)
		}
	}
	for _, rev := range world.RevisionsOf(initial, world.NS) {
		if final.Get(simapi.Revisions, world.NS, rev.Name) == nil {
			bad("revision-lost", "revision %s did not survive the migration", rev.Name)
		}
	}
	if final.Get(simapi.BuiltinSet, world.NS, bw.Name) != nil {
		bad("builtin-still-present", "Upgrade reported success but the built-in set still exists")
	}
	out.Final = upgradeFingerprint(final, bw.Name)
	return out
}

// stateAt replays the recorded writes up to (excluding) seq over the initial snapshot.
func stateAt(initial simapi.Snapshot, log []*simapi.Call, seq int) simapi.Snapshot {
	st := simapi.Snapshot{}
	for r, m := range initial {
		c := map[string]runtime.Object{}
		for k, v := range m {
			c[k] = v
		}
		st[r] = c
	}
	for _, c := range log {
		if c.Seq >= seq {
			break
		}
		if !c.IsWrite() {
			continue
		}
		key := c.NS + "/" + c.Name
		if c.After == nil {
			delete(st[c.Res], key)
		} else {
			st[c.Res][key] = c.After
		}
	}
	return st
}

func runC17(ctx *Ctx) *Result {
	res := newResult()
	srv := simapi.New()
	seen := map[string]int{}
	for i := ctx.Lo; i < ctx.hi(); i++ {
		if !ctx.mine(i) {
			continue
		}
		r := rand.New(rand.NewSource(ctx.caseSeed(i)))
		bw := genBuiltinWorld(r)
		report := func(v [2]string, plan string, calls []string) {
			seen[v[0]]++
			if seen[v[0]] <= 2 {
				res.Violations = append(res.Violations, Witness{Prop: "C17", Clause: v[0], Msg: v[1], Family: "c17", Case: i, Seed: ctx.Seed, Tier: ctx.Tier,
					Trace: append([]string{bw.String(), "fault plan: " + plan}, calls...)})
			}
		}
		base := runUpgrade(srv, bw, nil, false)
		res.Evaluations++
		res.Stats["worlds"]++
		res.Stats["selector_"+bw.SelShape]++
		if bw.PreAsts != "" {
			res.Stats["worlds_with_preexisting_advanced_object"]++
		}
		if bw.Remigrated {
			res.Stats["worlds_with_already_marked_revisions"]++
		}
		for _, v := range base.Viol {
			report(v, "none", base.Calls)
		}
		if len(base.Viol) > 0 {
			continue
		}
		// identities of the fault-free run
		srvLog := srv.Log(0)
		type pos struct {
			id, verb string
			occ      int
			write    bool
		}
		var positions []pos
		for _, c := range srvLog {
			if c.Actor == "upgrade-helper" {
				positions = append(positions, pos{c.Identity(), c.Verb, c.Occ, c.IsWrite()})
			}
		}
		res.sample(2, map[string]interface{}{"world": bw.String(), "fault_free_calls": base.Calls})
		for pi, p := range positions {
			for _, kind := range []string{"500", "timeout", "conflict", "notfound", "exists"} {
				if !simapi.ValidKind(p.verb, kind) {
					continue
				}
				// a consistent NotFound on the built-in set / its revisions means somebody else deleted them: the final state differs trivially
				if kind == "notfound" {
					continue
				}
				modes := []string{"before", "crash-before"}
				if p.write {
					modes = []string{"before", "after", "crash-before", "crash-after"}
				}
				if kind != "500" && kind != "timeout" {
					modes = []string{"before"}
				}
				for _, mode := range modes {
					for _, reget := range []bool{false, true} {
						if reget && (ctx.Tier == "quick" && (pi+i)%3 != 0) {
							continue
						}
						f := &simapi.Fault{Rec: 1, Identity: p.id, Occ: p.occ, Kind: kind, Mode: mode}
						o := runUpgrade(srv, bw, []*simapi.Fault{f}, reget)
						res.Evaluations++
						res.Stats["single_fault_runs"]++
						res.Stats["fault_"+kind+"_"+mode]++
						res.sig(fmt.Sprint(bw, f.String(), reget))
						if o.Attempts > 1 {
							res.Stats["runs_needing_retry"]++
						}
						plan := fmt.Sprintf("%s (retry with re-read object: %v), attempts=%d", f, reget, o.Attempts)
						for _, v := range o.Viol {
							report(v, plan, o.Calls)
						}
						if len(o.Viol) == 0 && o.Final != base.Final {
							report([2]string{"final-state-differs", "final state after faults differs from the uninterrupted run:\n  got  " + o.Final + "\n  want " + base.Final}, plan, o.Calls)
						}
					}
				}
			}
		}
		// sampled double faults: second fault in the retry attempt
		nd := 6
		if ctx.Tier == "thorough" {
			nd = 30
		}
		for k := 0; k < nd && len(positions) > 1; k++ {
			p1, p2 := positions[r.Intn(len(positions))], positions[r.Intn(len(positions))]
			modes := []string{"before", "after", "crash-before", "crash-after"}
			m1, m2 := modes[r.Intn(4)], modes[r.Intn(4)]
			if !p1.write && (m1 == "after" || m1 == "crash-after") {
				m1 = "before"
			}
			if !p2.write && (m2 == "after" || m2 == "crash-after") {
				m2 = "before"
			}
			f1 := &simapi.Fault{Rec: 1, Identity: p1.id, Occ: p1.occ, Kind: "500", Mode: m1}
			f2 := &simapi.Fault{Rec: 2, Identity: p2.id, Occ: p2.occ, Kind: "timeout", Mode: m2}
			o := runUpgrade(srv, bw, []*simapi.Fault{f1, f2}, k%2 == 0)
			res.Evaluations++
			res.Stats["double_fault_runs"]++
			res.sig(fmt.Sprint(bw, f1.String(), f2.String()))
			plan := fmt.Sprintf("%s then %s, attempts=%d", f1, f2, o.Attempts)
			for _, v := range o.Viol {
				report(v, plan, o.Calls)
			}
			if len(o.Viol) == 0 && o.Final != base.Final {
				report([2]string{"final-state-differs", "final state after faults differs from the uninterrupted run:\n  got  " + o.Final + "\n  want " + base.Final}, plan, o.Calls)
			}
		}
	}
	keys := make([]string, 0)
	for k := range seen {
		keys = append(keys, k)
	}
	sort.Strings(keys)
	for _, k := range keys {
		res.Stats["violations_"+k] = seen[k]
	}
	return res
}

func init() {
	register(&Check{Prop: "C17", Level: "fault_enumeration",
		Rule:   "worlds built by a reference built-in controller (selector shapes labels / expressions / both, 0..4 revisions incl. rollbacks, pods, rollout possibly half-way, with / without / with a stale pre-existing Advanced object); the real helper.Upgrade runs on simapi; the fault-free run yields the call identities; then EVERY call position x applicable error kind (server error, timeout, conflict, already-exists) x {before, applied-then-error, process death before, process death after} is injected singly (retry with the caller's original object and, for a third of them in quick, with a re-read object) and double faults are sampled; the caller retries until success; oracles on the combined log and the differential final state; distinct = distinct (world, fault plan)",
		Assume: append([]string{"a consistent NotFound (somebody else deleted the built-in set or a revision mid-upgrade) is not injected: the final state then differs trivially", "GC is emulated: owner references are stripped from dependents on an orphaning delete, dependents are deleted otherwise"}, simAssumptions[0]),
		Cases:  scenarioCases(320, 4000), Run: runC17,
		Floors: []string{"single_fault_runs", "double_fault_runs", "runs_needing_retry", "worlds_with_preexisting_advanced_object", "selector_expressions", "fault_500_crash-after"}})
}
