// vcheck decides one property by running the real code under generated
// workloads and watching it with the monitors of package mon.
//
//	vcheck -prop C03 -tier quick|thorough        parent: shards the work over child processes
//	vcheck -prop C03 -replay <file>              re-run the scenario of a witness file
package main

import (
	"encoding/json"
	"flag"
	"fmt"
	"hash/fnv"
	"os"
	"os/exec"
	"os/signal"
	"path/filepath"
	"sort"
	"strconv"
	"strings"
	"sync"
	"syscall"
	"time"
)

// Result is what a worker (or an in-process check) reports.
type Result struct {
	Evaluations  int                    `json:"evaluations"`
	Stats        map[string]int         `json:"stats"`
	Sigs         []uint64               `json:"sigs"` // hashes of distinct non-trivial cases
	Samples      []interface{}          `json:"samples"`
	Violations   []Witness              `json:"violations"`
	Inconclusive []string               `json:"inconclusive"`
	Extra        map[string]interface{} `json:"extra,omitempty"`
}

type Witness struct {
	Prop   string      `json:"property"`
	Clause string      `json:"clause"`
	Msg    string      `json:"message"`
	Family string      `json:"family"`
	Case   int         `json:"case"`
	Seed   int64       `json:"seed"`
	Tier   string      `json:"tier"`
	Trace  []string    `json:"trace,omitempty"`
	Detail interface{} `json:"detail,omitempty"`
	Known  string      `json:"known_finding,omitempty"`
}

func (w Witness) Signature() string { return w.Prop + "/" + w.Clause }

func newResult() *Result { return &Result{Stats: map[string]int{}, Extra: map[string]interface{}{}} }

func (r *Result) sig(s string) {
	h := fnv.New64a()
	h.Write([]byte(s))
	r.Sigs = append(r.Sigs, h.Sum64())
}

func (r *Result) sample(max int, s interface{}) {
	if len(r.Samples) < max {
		r.Samples = append(r.Samples, s)
	}
}

func (r *Result) merge(o *Result) {
	r.Evaluations += o.Evaluations
	for k, v := range o.Stats {
		r.Stats[k] += v
	}
	r.Sigs = append(r.Sigs, o.Sigs...)
	for _, s := range o.Samples {
		r.sample(6, s)
	}
	r.Violations = append(r.Violations, o.Violations...)
	r.Inconclusive = append(r.Inconclusive, o.Inconclusive...)
	for k, v := range o.Extra {
		if _, ok := r.Extra[k]; !ok {
			r.Extra[k] = v
		}
	}
}

// Check describes how one property is decided.
type Check struct {
	Prop   string
	Level  string // exploration | fault_enumeration
	Rule   string
	Assume []string
	// Cases returns the number of independent cases per tier; the parent shards them.
	Cases func(tier string) int
	// Run executes cases [i for i in 0..n if i%of==shard] and reports.
	Run func(ctx *Ctx) *Result
	// Floors are stats that must be > 0 for the run to count as conclusive.
	Floors []string
	// Exhaustive marks a completely enumerated finite space.
	Exhaustive bool
	// DeathIsViolation: a worker that dies without a result is a violation of the
	// property (C15/C20: "never crashes"), witnessed by the input it logged last.
	DeathIsViolation bool
	// Race, if set, is an additional workload run by a binary built with -race (race tier):
	// cases [0, RaceCases(tier)). DATA RACE reports with repository frames are violations.
	Race      func(ctx *Ctx) *Result
	RaceCases func(tier string) int
}

type Ctx struct {
	Prop  string
	Tier  string
	Seed  int64
	Shard int
	Of    int
	N     int
	Only  int // >=0: run only this case (replay)
	// CurFile: a worker writes the input of the case it is about to run here, so
	// that a process-fatal crash can be attributed to its input by the parent.
	CurFile string
	// Lo/Hi restrict the case range (Hi==0: [0,N)); used to combine two case families in one check.
	Lo, Hi int
}

func (c *Ctx) hi() int {
	if c.Hi > 0 {
		return c.Hi
	}
	return c.N
}

// sub returns a copy restricted to cases [lo,hi).
func (c *Ctx) sub(lo, hi int) *Ctx {
	d := *c
	d.Lo, d.Hi = lo, hi
	return &d
}

// both runs family a on the first na cases of the range it is given and family b on the rest (nests).
func both(a func(*Ctx) *Result, na func(string) int, b func(*Ctx) *Result) func(*Ctx) *Result {
	return func(ctx *Ctx) *Result {
		n := na(ctx.Tier)
		r := a(ctx.sub(ctx.Lo, ctx.Lo+n))
		r.merge(b(ctx.sub(ctx.Lo+n, ctx.hi())))
		return r
	}
}

func (c *Ctx) mine(i int) bool {
	if c.Only >= 0 {
		return i == c.Only
	}
	return i%c.Of == c.Shard
}

func (c *Ctx) caseSeed(i int) int64 {
	h := fnv.New64a()
	fmt.Fprintf(h, "%d/%d", c.Seed, i)
	return int64(h.Sum64() >> 1)
}

var registry = map[string]*Check{}

func register(c *Check) { registry[c.Prop] = c }

func verifDir() string {
	if d := os.Getenv("VERIF_DIR"); d != "" {
		return d
	}
	return "/verif"
}

func main() {
	prop := flag.String("prop", "", "property id")
	tier := flag.String("tier", "quick", "quick|thorough")
	worker := flag.Bool("worker", false, "internal: run as worker")
	shard := flag.Int("shard", 0, "")
	of := flag.Int("of", 1, "")
	out := flag.String("out", "", "")
	replay := flag.String("replay", "", "witness file to replay")
	only := flag.Int("case", -1, "run a single case in-process and print its trace")
	procs := flag.Int("procs", 16, "worker processes")
	raceRun := flag.Bool("race-run", false, "internal: worker runs the race workload")
	flag.Parse()
	if t := os.Getenv("VERIF_TIER"); t != "" && !flagSet("tier") {
		*tier = t
	}
	seed := int64(1)
	if s := os.Getenv("VERIF_SEED"); s != "" {
		if v, err := strconv.ParseInt(s, 10, 64); err == nil {
			seed = v
		}
	}
	ck := registry[*prop]
	if ck == nil {
		fmt.Fprintf(os.Stderr, "unknown property %q\n", *prop)
		os.Exit(2)
	}
	if *replay != "" {
		b, err := os.ReadFile(*replay)
		if err != nil {
			fmt.Fprintln(os.Stderr, err)
			os.Exit(2)
		}
		var w Witness
		json.Unmarshal(b, &w)
		seed, *tier, *only = w.Seed, w.Tier, w.Case
	}
	if *worker || *only >= 0 {
		ctx := &Ctx{Prop: *prop, Tier: *tier, Seed: seed, Shard: *shard, Of: *of, N: ck.Cases(*tier), Only: *only}
		if *out != "" {
			ctx.CurFile = *out + ".cur"
		}
		run := ck.Run
		if *raceRun {
			run = ck.Race
			ctx.N = ck.RaceCases(*tier)
			ctx.Seed = seed + 7919
		}
		res := run(ctx)
		b, _ := json.Marshal(res)
		if *out != "" {
			os.WriteFile(*out, b, 0o644)
		} else {
			for _, v := range res.Violations {
				fmt.Printf("VIOLATION %s: %s\n", v.Signature(), v.Msg)
				for _, l := range v.Trace {
					fmt.Println("   ", l)
				}
			}
			for _, s := range res.Inconclusive {
				fmt.Println("INCONCLUSIVE", s)
			}
			st, _ := json.MarshalIndent(res.Stats, "", " ")
			fmt.Printf("evaluations=%d stats=%s\n", res.Evaluations, st)
		}
		if len(res.Violations) > 0 {
			os.Exit(1)
		}
		return
	}
	os.Exit(parent(ck, *tier, seed, *procs))
}

func flagSet(name string) bool {
	found := false
	flag.Visit(func(f *flag.Flag) {
		if f.Name == name {
			found = true
		}
	})
	return found
}

type knownFile struct {
	Open  []knownEntry `json:"open"`
	Fixed []string     `json:"fixed"`
}
type knownEntry struct {
	Property string `json:"property"`
	Clause   string `json:"clause"`
	Match    string `json:"match"` // substring of the message identifying the specific failing input/call site
	What     string `json:"what"`
}

func loadKnown() knownFile {
	var k knownFile
	home := os.Getenv("VERIF_HOME") // where the committed file lives (VERIF_DIR may point at a scratch output directory)
	if home == "" {
		home = verifDir()
	}
	b, err := os.ReadFile(filepath.Join(home, "known_findings.json"))
	if err == nil {
		json.Unmarshal(b, &k)
	}
	return k
}

func parent(ck *Check, tier string, seed int64, procs int) int {
	start := time.Now()
	n := ck.Cases(tier)
	if procs > n {
		procs = n
	}
	if procs < 1 {
		procs = 1
	}
	tmp, err := os.MkdirTemp("", "vcheck-"+ck.Prop+"-")
	if err != nil {
		fmt.Println("INCONCLUSIVE cannot create temp dir:", err)
		return 3
	}
	defer os.RemoveAll(tmp)
	self, _ := os.Executable()
	total := newResult()
	var mu sync.Mutex
	// an interrupted run (vp stop, timeout(1), ^C) leaves neither worker processes nor its scratch directory behind
	var procMu sync.Mutex
	var started []*exec.Cmd
	sigc := make(chan os.Signal, 1)
	signal.Notify(sigc, syscall.SIGINT, syscall.SIGTERM, syscall.SIGHUP)
	go func() {
		<-sigc
		procMu.Lock()
		for _, c := range started {
			if c.Process != nil {
				c.Process.Kill()
			}
		}
		os.RemoveAll(tmp)
		fmt.Println("INCONCLUSIVE interrupted by a signal")
		os.Exit(3)
	}()
	defer signal.Stop(sigc)
	var wg sync.WaitGroup
	watchdog := 50 * time.Minute
	if tier == "quick" {
		watchdog = 15 * time.Minute
	}
	for i := 0; i < procs; i++ {
		wg.Add(1)
		go func(i int) {
			defer wg.Done()
			outf := filepath.Join(tmp, fmt.Sprintf("w%d.json", i))
			logf := filepath.Join(tmp, fmt.Sprintf("w%d.log", i))
			cmd := exec.Command(self, "-worker", "-prop", ck.Prop, "-tier", tier, "-shard", fmt.Sprint(i), "-of", fmt.Sprint(procs), "-out", outf)
			cmd.Env = append(os.Environ(), fmt.Sprintf("VERIF_SEED=%d", seed))
			lf, _ := os.Create(logf)
			cmd.Stdout, cmd.Stderr = lf, lf
			done := make(chan error, 1)
			procMu.Lock()
			cmd.Start()
			started = append(started, cmd)
			procMu.Unlock()
			go func() { done <- cmd.Wait() }()
			var werr error
			timedOut := false
			select {
			case werr = <-done:
			case <-time.After(watchdog):
				cmd.Process.Kill()
				werr = <-done
				timedOut = true
			}
			lf.Close()
			mu.Lock()
			defer mu.Unlock()
			b, rerr := os.ReadFile(outf)
			if rerr != nil {
				lb, _ := os.ReadFile(logf)
				tail := string(lb)
				if len(tail) > 3000 {
					tail = tail[len(tail)-3000:]
				}
				if timedOut {
					total.Inconclusive = append(total.Inconclusive, fmt.Sprintf("worker %d stopped by the wall-clock watchdog", i))
				} else if cur, cerr := os.ReadFile(outf + ".cur"); ck.DeathIsViolation && cerr == nil {
					var in interface{}
					json.Unmarshal(cur, &in)
					total.Violations = append(total.Violations, Witness{Prop: ck.Prop, Clause: "process-died", Msg: fmt.Sprintf("the process running the code under test died (%v)", werr),
						Family: "death", Case: -1, Seed: seed, Tier: tier, Detail: map[string]interface{}{"last_input": in, "output_tail": tail}})
				} else {
					total.Inconclusive = append(total.Inconclusive, fmt.Sprintf("worker %d died without a result (%v): %s", i, werr, tail))
				}
				return
			}
			var r Result
			if err := json.Unmarshal(b, &r); err != nil {
				total.Inconclusive = append(total.Inconclusive, fmt.Sprintf("worker %d: bad result: %v", i, err))
				return
			}
			total.merge(&r)
		}(i)
	}
	wg.Wait()
	if rb := os.Getenv("VCHECK_RACE_BIN"); rb != "" && ck.Race != nil {
		raceTier(ck, total, tier, seed, rb, tmp, watchdog)
	}
	return finish(ck, total, tier, seed, time.Since(start).Seconds())
}

// raceTier runs the check's race workload in processes built with -race and turns DATA RACE
// reports into verdicts: a report with a repository frame is a violation of the property whose
// code it is in; a report with harness/client-go frames only makes the run inconclusive.
func raceTier(ck *Check, total *Result, tier string, seed int64, bin, tmp string, watchdog time.Duration) {
	n := ck.RaceCases(tier)
	procs := 8
	if procs > n {
		procs = n
	}
	var mu sync.Mutex
	var wg sync.WaitGroup
	for i := 0; i < procs; i++ {
		wg.Add(1)
		go func(i int) {
			defer wg.Done()
			outf := filepath.Join(tmp, fmt.Sprintf("r%d.json", i))
			cmd := exec.Command(bin, "-worker", "-race-run", "-prop", ck.Prop, "-tier", tier, "-shard", fmt.Sprint(i), "-of", fmt.Sprint(procs), "-out", outf)
			cmd.Env = append(os.Environ(), fmt.Sprintf("VERIF_SEED=%d", seed), fmt.Sprintf("GORACE=halt_on_error=0 log_path=%s", filepath.Join(tmp, fmt.Sprintf("race.w%d", i))))
			lf, _ := os.Create(filepath.Join(tmp, fmt.Sprintf("r%d.log", i)))
			cmd.Stdout, cmd.Stderr = lf, lf
			done := make(chan error, 1)
			cmd.Start()
			go func() { done <- cmd.Wait() }()
			var werr error
			select {
			case werr = <-done:
			case <-time.After(watchdog):
				cmd.Process.Kill()
				werr = <-done
			}
			lf.Close()
			mu.Lock()
			defer mu.Unlock()
			b, rerr := os.ReadFile(outf)
			var r Result
			if rerr != nil || json.Unmarshal(b, &r) != nil {
				lb, _ := os.ReadFile(filepath.Join(tmp, fmt.Sprintf("r%d.log", i)))
				tl := string(lb)
				if len(tl) > 2000 {
					tl = tl[len(tl)-2000:]
				}
				if cur, cerr := os.ReadFile(outf + ".cur"); ck.DeathIsViolation && cerr == nil {
					total.Violations = append(total.Violations, Witness{Prop: ck.Prop, Clause: "process-died", Msg: fmt.Sprintf("race-tier process died (%v)", werr), Family: "death", Case: -1, Seed: seed, Tier: tier,
						Detail: map[string]interface{}{"last_input": string(cur), "output_tail": tl}})
				} else {
					total.Inconclusive = append(total.Inconclusive, fmt.Sprintf("race worker %d died without a result (%v): %s", i, werr, tl))
				}
				return
			}
			r2 := newResult()
			r2.merge(&r)
			for k, v := range r.Stats {
				delete(r2.Stats, k)
				r2.Stats["race_tier_"+k] = v
			}
			total.merge(r2)
		}(i)
	}
	wg.Wait()
	reports := parseRaceLogs(tmp)
	total.Stats["race_tier_processes"] = procs
	total.Stats["race_reports_distinct"] = len(reports)
	for _, r := range reports {
		if !r.Repo {
			total.Inconclusive = append(total.Inconclusive, "DATA RACE report without a repository frame (harness/client-go noise): "+r.Key)
			continue
		}
		if p := racePropertyOf(r); p == ck.Prop {
			total.Violations = append(total.Violations, Witness{Prop: ck.Prop, Clause: "data-race", Msg: "the race detector reported a data race in repository code: " + r.Key, Family: "race", Case: -1, Seed: seed, Tier: tier, Detail: r.Text})
		} else {
			total.Stats["race_reports_for_other_property_"+p]++
		}
	}
	total.Extra["race_detector"] = fmt.Sprintf("%d processes built with -race ran %d cases; %d distinct DATA RACE reports", procs, n, len(reports))
}

func finish(ck *Check, total *Result, tier string, seed int64, wall float64) int {
	distinct := map[uint64]bool{}
	for _, s := range total.Sigs {
		distinct[s] = true
	}
	for _, f := range ck.Floors {
		if total.Stats[f] == 0 {
			total.Inconclusive = append(total.Inconclusive, fmt.Sprintf("coverage floor missed: the monitor never observed %q", f))
		}
	}
	known := loadKnown()
	var fresh []Witness
	knownSeen := map[string]bool{}
	for _, v := range total.Violations {
		matched := false
		for _, k := range known.Open {
			if k.Property == v.Prop && k.Clause == v.Clause && strings.Contains(v.Msg, k.Match) {
				if !knownSeen[k.What] {
					knownSeen[k.What] = true
					fmt.Printf("KNOWN-FINDING: property=%s %s\n", v.Prop, k.What)
				}
				matched = true
				break
			}
		}
		if !matched {
			fresh = append(fresh, v)
		}
	}
	os.MkdirAll(filepath.Join(verifDir(), "evidence"), 0o755)
	os.MkdirAll(filepath.Join(verifDir(), "replay"), 0o755)
	// one replay file per distinct clause (first witness), at most 5
	seenClause := map[string]bool{}
	var lines []string
	for _, v := range fresh {
		if seenClause[v.Signature()] || len(seenClause) >= 5 {
			continue
		}
		seenClause[v.Signature()] = true
		p := filepath.Join(verifDir(), "replay", fmt.Sprintf("%s-%s-%d-%d.json", v.Prop, v.Clause, seed, v.Case))
		b, _ := json.MarshalIndent(v, "", " ")
		os.WriteFile(p, b, 0o644)
		lines = append(lines, fmt.Sprintf("VIOLATION property=%s replay=%s", v.Prop, p))
		fmt.Printf("  %s: %s\n", v.Signature(), v.Msg)
	}
	keys := make([]string, 0, len(total.Stats))
	for k := range total.Stats {
		keys = append(keys, k)
	}
	sort.Strings(keys)
	ev := map[string]interface{}{
		"property_id": ck.Prop,
		"tier":        tier,
		"seed":        seed,
		"level":       ck.Level,
		"coverage": map[string]interface{}{
			"evaluations":         total.Evaluations,
			"distinct_nontrivial": len(distinct),
			"rule":                ck.Rule,
			"samples":             total.Samples,
			"observed":            total.Stats,
			"exhaustive":          ck.Exhaustive,
			"extra":               total.Extra,
		},
		"assumptions":         ck.Assume,
		"wall_s":              wall,
		"violations":          len(fresh),
		"known_findings_seen": len(knownSeen),
		"inconclusive":        append([]string{}, total.Inconclusive...),
	}
	b, _ := json.MarshalIndent(ev, "", " ")
	os.WriteFile(filepath.Join(verifDir(), "evidence", ck.Prop+".json"), b, 0o644)
	fmt.Printf("%s tier=%s seed=%d evaluations=%d distinct_nontrivial=%d wall=%.1fs\n", ck.Prop, tier, seed, total.Evaluations, len(distinct), wall)
	for _, k := range keys {
		fmt.Printf("  observed %-45s %d\n", k, total.Stats[k])
	}
	if len(lines) > 0 {
		for _, l := range lines {
			fmt.Println(l)
		}
		return 1
	}
	if len(total.Inconclusive) > 0 {
		for _, s := range total.Inconclusive {
			fmt.Println("INCONCLUSIVE", s)
		}
		return 3
	}
	if len(knownSeen) > 0 {
		fmt.Printf("HELD property=%s on everything explored, apart from the %d known finding(s) listed above\n", ck.Prop, len(knownSeen))
	} else {
		fmt.Printf("HELD property=%s on everything explored\n", ck.Prop)
	}
	return 0
}
