package main

import (
	"context"
	"encoding/json"
	"fmt"
	"math/rand"
	"os"
	"runtime"
	"strings"
	"sync"
	"time"

	asv1 "github.com/pingcap/advanced-statefulset/client/apis/apps/v1"
	"github.com/pingcap/advanced-statefulset/client/apis/apps/v1/helper"
	pcfake "github.com/pingcap/advanced-statefulset/client/client/clientset/versioned/fake"
	appsv1 "k8s.io/api/apps/v1"
	corev1 "k8s.io/api/core/v1"
	apiequality "k8s.io/apimachinery/pkg/api/equality"
	metav1 "k8s.io/apimachinery/pkg/apis/meta/v1"
	"k8s.io/apimachinery/pkg/types"
	"k8s.io/apimachinery/pkg/watch"
	kubefake "k8s.io/client-go/kubernetes/fake"
	ktesting "k8s.io/client-go/testing"
)

// C20: the hijacked watch relays everything, survives Error events, shuts down cleanly.

// srcWatch is a controllable source with the semantics of a real StreamWatcher:
// unbuffered result channel, Stop() makes the producer give up and close it.
type srcWatch struct {
	ch   chan watch.Event
	done chan struct{}
	// lazy: after Stop the producer keeps its channel open until the harness releases it (a source that
	// closes late, or a ProxyWatcher whose producer owns the channel): the relay must not depend on the
	// source closing to terminate and to close its own result channel
	lazy      bool
	release   chan struct{}
	relOnce   sync.Once
	once      sync.Once
	mu        sync.Mutex
	stopCalls int
}

func newSrc() *srcWatch {
	return &srcWatch{ch: make(chan watch.Event), done: make(chan struct{}), release: make(chan struct{})}
}
func (s *srcWatch) releaseNow() { s.relOnce.Do(func() { close(s.release) }) }
func (s *srcWatch) Stop() {
	s.mu.Lock()
	s.stopCalls++
	s.mu.Unlock()
	s.once.Do(func() { close(s.done) })
}
func (s *srcWatch) ResultChan() <-chan watch.Event { return s.ch }
func (s *srcWatch) stops() int                     { s.mu.Lock(); defer s.mu.Unlock(); return s.stopCalls }

type c20Case struct {
	Index  int      `json:"case"`
	Events []string `json:"events"` // type names
	Plan   string   `json:"consumer_plan"`
	K      int      `json:"receive_before_stop"`
	// the source keeps its channel open after Stop until the end of the case
	LazySource bool `json:"source_closes_late"`
}

var c20Types = []watch.EventType{watch.Added, watch.Modified, watch.Deleted, watch.Bookmark, watch.Error}

var c20Plans = []string{"drain-until-closed", "recv-k-stop-drain", "recv-k-stop-abandon", "stop-first-drain", "stop-twice-drain", "recv-k-wait-parked-stop-abandon", "recv-k-wait-parked-stop-drain", "stop-concurrently"}

func relayGoroutines() (n int, states []string) {
	buf := make([]byte, 1<<20)
	buf = buf[:runtime.Stack(buf, true)]
	for _, g := range strings.Split(string(buf), "\n\n") {
		// any goroutine still executing code of the hijack helper package (the relay, or anything else it started)
		if strings.Contains(g, "hijackWatch).receive") || (strings.Contains(g, "apis/apps/v1/helper.") && !strings.Contains(g, "cmd/vcheck")) {
			n++
			first := strings.SplitN(g, "\n", 2)[0]
			states = append(states, first)
		}
	}
	return
}

func waitRelayParkedInSend() bool {
	for i := 0; i < 2000; i++ {
		_, st := relayGoroutines()
		for _, s := range st {
			if strings.Contains(s, "chan send") || strings.Contains(s, "select") {
				return true
			}
		}
		time.Sleep(time.Millisecond)
	}
	return false
}

func makeEvent(i int, t watch.EventType) watch.Event {
	if t == watch.Error {
		return watch.Event{Type: t, Object: &metav1.Status{Status: metav1.StatusFailure, Code: 410, Reason: metav1.StatusReasonExpired, Message: fmt.Sprintf("too old resource version %d", i)}}
	}
	// every third event is about the same object at the same resourceVersion as the event before it, with other
	// content (clientsets backed by an object tracker never bump the version; a Deleted event carries the last one)
	id := i
	if i%3 == 2 {
		id = i - 1
	}
	s := &asv1.StatefulSet{ObjectMeta: metav1.ObjectMeta{Name: fmt.Sprintf("s%d", id), Namespace: "ns", UID: types.UID(fmt.Sprintf("uid-%d", id)), ResourceVersion: fmt.Sprint(100 + id)}}
	if t != watch.Bookmark {
		r := int32(i)
		s.Spec.Replicas = &r
		s.Spec.ServiceName = "svc"
		// consecutive events differ in which optional fields are present at all
		if i%2 == 0 {
			s.Annotations = map[string]string{helper.DeleteSlotsAnn: fmt.Sprintf("[%d]", i), helper.PausedReconcileAnn: "true"}
			s.Labels = map[string]string{"generation": fmt.Sprint(i)}
			s.Spec.VolumeClaimTemplates = []corev1.PersistentVolumeClaim{{ObjectMeta: metav1.ObjectMeta{Name: "data"}}}
			s.Status.CurrentRevision = fmt.Sprintf("rev-%d", i)
		}
	}
	return watch.Event{Type: t, Object: s}
}

// runC20Case returns violations (clause, message) and whether the run was conclusive.
func runC20Case(c c20Case) (viol [][2]string, inconclusive string) {
	bad := func(clause, f string, a ...interface{}) { viol = append(viol, [2]string{clause, fmt.Sprintf(f, a...)}) }
	if n, _ := relayGoroutines(); n != 0 {
		return nil, "a relay goroutine of an earlier case is still around"
	}
	src := newSrc()
	src.lazy = c.LazySource
	defer src.releaseNow()
	pc := pcfake.NewSimpleClientset()
	pc.PrependWatchReactor("statefulsets", func(a ktesting.Action) (bool, watch.Interface, error) { return true, src, nil })
	hc := helper.NewHijackClient(kubefake.NewSimpleClientset(), pc)
	ctx := context.TODO()
	cancel := func() {}
	if c.Index%2 == 1 {
		// a long-lived cancellable context, as callers with request scopes use; it outlives the watch
		ctx, cancel = context.WithCancel(context.Background())
	}
	defer cancel()
	w, err := hc.AppsV1().StatefulSets("ns").Watch(ctx, metav1.ListOptions{})
	if err != nil {
		return nil, "Watch failed: " + err.Error()
	}
	var sent []watch.Event
	for i, name := range c.Events {
		sent = append(sent, makeEvent(i, watch.EventType(name)))
	}
	// producer: sends everything, gives up when stopped, then closes (like a StreamWatcher)
	prodDone := make(chan int, 1)
	go func() {
		n := 0
		defer func() { close(src.ch); prodDone <- n }()
		for _, ev := range sent {
			select {
			case src.ch <- ev:
				n++
			case <-src.done:
				if src.lazy {
					<-src.release
				}
				return
			}
		}
	}()
	var got []watch.Event
	closed := false
	recv := func() bool { // false when the channel got closed
		select {
		case ev, ok := <-w.ResultChan():
			if !ok {
				closed = true
				return false
			}
			got = append(got, ev)
			return true
		case <-time.After(10 * time.Second):
			inconclusive = "consumer waited 10s for an event or for the channel to close"
			return false
		}
	}
	drain := func() {
		for recv() {
		}
	}
	k := c.K
	if k > len(sent) {
		k = len(sent)
	}
	stopped, abandoned := false, false
	switch c.Plan {
	case "drain-until-closed":
		drain()
	case "recv-k-stop-drain", "recv-k-stop-abandon":
		for i := 0; i < k && recv(); i++ {
		}
		w.Stop()
		stopped = true
		if c.Plan == "recv-k-stop-drain" {
			drain()
		} else {
			abandoned = true
		}
	case "stop-first-drain":
		w.Stop()
		stopped = true
		drain()
	case "stop-twice-drain":
		for i := 0; i < k && recv(); i++ {
		}
		w.Stop()
		w.Stop()
		stopped = true
		drain()
		w.Stop()
	case "recv-k-wait-parked-stop-abandon", "recv-k-wait-parked-stop-drain":
		for i := 0; i < k && recv(); i++ {
		}
		if k < len(sent) {
			if !waitRelayParkedInSend() {
				return nil, "relay never parked with an event in flight"
			}
		}
		w.Stop()
		stopped = true
		if strings.HasSuffix(c.Plan, "drain") {
			drain()
		} else {
			abandoned = true
		}
	case "stop-concurrently":
		var wg sync.WaitGroup
		wg.Add(1)
		go func() { defer wg.Done(); w.Stop(); w.Stop() }()
		drain()
		wg.Wait()
		stopped = true
	}
	if inconclusive != "" {
		// a consumer that waits forever although the source is finished is a lost event / missing close
		if _, st := relayGoroutines(); true {
			bad("stuck", "consumer blocked: %s (relay goroutines: %v, received %d of %d)", inconclusive, st, len(got), len(sent))
			inconclusive = ""
		}
	}
	// the relay goroutine must be gone
	leaked := true
	var states []string
	for i := 0; i < 600; i++ {
		var n int
		n, states = relayGoroutines()
		if n == 0 {
			leaked = false
			break
		}
		time.Sleep(5 * time.Millisecond)
	}
	if leaked {
		bad("goroutine-leak", "plan %s: relay goroutine still present after the consumer finished: %v", c.Plan, states)
	}
	// sequence oracle
	for i, ev := range got {
		if i >= len(sent) {
			bad("extra-event", "received %d events, only %d were sent", len(got), len(sent))
			break
		}
		want := sent[i]
		if ev.Type != want.Type {
			bad("event-type", "event %d relayed as %s, sent as %s", i, ev.Type, want.Type)
			continue
		}
		if want.Type == watch.Error {
			st, ok := ev.Object.(*metav1.Status)
			if !ok || st.Message != want.Object.(*metav1.Status).Message {
				bad("error-payload", "Error event %d relayed with payload %T", i, ev.Object)
			}
			continue
		}
		b, ok := ev.Object.(*appsv1.StatefulSet)
		ws := want.Object.(*asv1.StatefulSet)
		if !ok {
			bad("payload-type", "event %d payload is %T, want *apps/v1.StatefulSet", i, ev.Object)
			continue
		}
		if b.Name != ws.Name || b.ResourceVersion != ws.ResourceVersion || b.APIVersion != "apps/v1" ||
			(ws.Spec.Replicas != nil && (b.Spec.Replicas == nil || *b.Spec.Replicas != *ws.Spec.Replicas)) {
			bad("payload-content", "event %d payload %s/rv%s differs from sent %s/rv%s", i, b.Name, b.ResourceVersion, ws.Name, ws.ResourceVersion)
		} else if wantObj, err := helper.ToBuiltinStatefulSet(ws); err == nil && !apiequality.Semantic.DeepEqual(wantObj, b) {
			// the equivalent built-in object of *this* event, nothing carried over from earlier ones
			bad("payload-not-equivalent", "event %d (%s): relayed object is not the built-in equivalent of the sent one: annotations %v vs %v, labels %v vs %v, claims %d vs %d, currentRevision %q vs %q",
				i, want.Type, b.Annotations, wantObj.Annotations, b.Labels, wantObj.Labels, len(b.Spec.VolumeClaimTemplates), len(wantObj.Spec.VolumeClaimTemplates), b.Status.CurrentRevision, wantObj.Status.CurrentRevision)
		}
	}
	if !stopped && len(got) != len(sent) && len(viol) == 0 {
		bad("lost-event", "source closed after %d events but only %d were relayed", len(sent), len(got))
	}
	if !abandoned && !closed && len(viol) == 0 {
		bad("channel-not-closed", "plan %s: the result channel was never closed", c.Plan)
	}
	if abandoned && !leaked {
		// the channel must still get closed for a late reader
		select {
		case _, ok := <-w.ResultChan():
			for ok {
				_, ok = <-w.ResultChan()
			}
		case <-time.After(5 * time.Second):
			bad("channel-not-closed", "plan %s: after Stop the abandoned result channel was never closed", c.Plan)
		}
	}
	if src.stops() == 0 {
		bad("source-not-stopped", "plan %s: the underlying watch was never stopped", c.Plan)
	}
	src.releaseNow()
	select {
	case <-prodDone:
	case <-time.After(5 * time.Second):
		bad("source-producer-stuck", "the source's producer is still blocked: the underlying watch was not released")
	}
	return viol, inconclusive
}

func runC20(ctx *Ctx) *Result {
	res := newResult()
	seenClause := map[string]int{}
	for i := ctx.Lo; i < ctx.hi(); i++ {
		if !ctx.mine(i) {
			continue
		}
		r := rand.New(rand.NewSource(ctx.caseSeed(i)))
		c := c20Case{Index: i, Plan: c20Plans[i%len(c20Plans)], LazySource: (i/len(c20Plans))%2 == 1}
		n := r.Intn(6)
		if i < 400 {
			n = i % 6
		}
		for j := 0; j < n; j++ {
			c.Events = append(c.Events, string(c20Types[r.Intn(len(c20Types))]))
		}
		c.K = 0
		if n > 0 {
			c.K = r.Intn(n + 1)
		}
		if ctx.CurFile != "" {
			b, _ := json.Marshal(c)
			os.WriteFile(ctx.CurFile, b, 0o644)
		}
		res.Evaluations++
		res.Stats["plan_"+c.Plan]++
		if c.LazySource && c.Plan != "drain-until-closed" {
			res.Stats["stops_with_source_closing_late"]++
		}
		for _, e := range c.Events {
			res.Stats["events_"+e]++
		}
		res.sig(fmt.Sprint(c.Events, c.Plan, c.K, c.LazySource))
		res.sample(3, c)
		vs, inc := runC20Case(c)
		if inc != "" {
			res.Stats["cases_without_verdict"]++
			if res.Stats["cases_without_verdict"] > 20 {
				res.Inconclusive = append(res.Inconclusive, fmt.Sprintf("case %d: %s", i, inc))
			}
			// do not let a stuck relay of this case poison the following ones
			if n, _ := relayGoroutines(); n > 0 {
				break
			}
		}
		for _, v := range vs {
			seenClause[v[0]]++
			if seenClause[v[0]] <= 2 {
				res.Violations = append(res.Violations, Witness{Prop: "C20", Clause: v[0], Msg: v[1], Family: "c20", Case: i, Seed: ctx.Seed, Tier: ctx.Tier, Detail: c})
			}
		}
		if n, _ := relayGoroutines(); n > 0 {
			// a leaked relay would be miscounted by later cases of this process: stop this shard here
			res.Stats["shards_cut_short_by_leak"]++
			break
		}
		total := 0
		for _, n := range seenClause {
			total += n
		}
		if total >= 6 {
			// the verdict is settled; violating cases cost seconds each (they end in watchdog waits)
			res.Stats["shards_cut_short_after_violations"]++
			break
		}
	}
	for k, n := range seenClause {
		res.Stats["violations_"+k] = n
	}
	return res
}

func init() {
	register(&Check{Prop: "C20", Level: "exploration",
		Rule:   "event sequences of length 0..5 over {Added, Modified, Deleted, Bookmark, Error} sent through a controllable unbuffered source behind the real hijack client's Watch, crossed with a source that closes its channel promptly on Stop or only at the end of the case (late-closing / producer-owned channel), and with 8 consumer plans (drain; receive k then Stop then drain / abandon; Stop first; Stop twice; Stop while the relay is parked with an event in flight, decided from a goroutine dump; Stop concurrently with draining); oracles: relayed sequence = sent prefix (type, name, resourceVersion, payload type), Error events relayed with their Status, result channel closed, source stopped, no goroutine left in hijackWatch.receive (goroutine dump); child processes with production crash behaviour: a dead child is a violation witnessed by the logged case; distinct = distinct (sequence, plan, k)",
		Assume: []string{"goroutine-leak verdict: the relay is still parked (chan send / chan receive / select) 3s after every other party finished and nobody holds its channels; wall-clock waits are watchdogs only"},
		Cases:  scenarioCases(8000, 120000), Run: runC20, DeathIsViolation: true,
		Race: runC20, RaceCases: scenarioCases(1600, 16000),
		Floors: []string{"events_ERROR", "events_BOOKMARK", "plan_recv-k-wait-parked-stop-abandon", "plan_stop-twice-drain", "stops_with_source_closing_late"}})
}
