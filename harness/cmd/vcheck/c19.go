package main

import (
	"context"
	"encoding/json"
	"fmt"
	pcfake "github.com/pingcap/advanced-statefulset/client/client/clientset/versioned/fake"
	apierrors "k8s.io/apimachinery/pkg/api/errors"
	"k8s.io/apimachinery/pkg/watch"
	kubefake "k8s.io/client-go/kubernetes/fake"
	ktesting "k8s.io/client-go/testing"
	"math"
	"math/rand"
	"reflect"
	"sort"
	"strings"
	"time"

	fuzz "github.com/google/gofuzz"
	asv1 "github.com/pingcap/advanced-statefulset/client/apis/apps/v1"
	"github.com/pingcap/advanced-statefulset/client/apis/apps/v1/helper"
	appsv1 "k8s.io/api/apps/v1"
	corev1 "k8s.io/api/core/v1"
	apifuzzer "k8s.io/apimachinery/pkg/api/apitesting/fuzzer"
	apiequality "k8s.io/apimachinery/pkg/api/equality"
	"k8s.io/apimachinery/pkg/api/resource"
	metafuzzer "k8s.io/apimachinery/pkg/apis/meta/fuzzer"
	metav1 "k8s.io/apimachinery/pkg/apis/meta/v1"
	"k8s.io/apimachinery/pkg/types"
	"k8s.io/apimachinery/pkg/util/intstr"
	"k8s.io/apimachinery/pkg/util/sets"
	appsapplyv1 "k8s.io/client-go/applyconfigurations/apps/v1"
	coreapplyv1 "k8s.io/client-go/applyconfigurations/core/v1"
	metaapplyv1 "k8s.io/client-go/applyconfigurations/meta/v1"
	"k8s.io/client-go/kubernetes/scheme"

	"verif/harness/simapi"
)

// unmodelled returns the JSON paths of apps/v1 StatefulSet fields that the Advanced type lacks
// (derived by reflection over the two Go types, so a newly unmodelled field shows up here).
func unmodelled() []string {
	var out []string
	var walk func(b, a reflect.Type, path string)
	walk = func(b, a reflect.Type, path string) {
		for b.Kind() == reflect.Ptr {
			b = b.Elem()
		}
		for a.Kind() == reflect.Ptr {
			a = a.Elem()
		}
		if b.Kind() != reflect.Struct || a.Kind() != reflect.Struct {
			return
		}
		af := map[string]reflect.StructField{}
		for i := 0; i < a.NumField(); i++ {
			f := a.Field(i)
			af[strings.Split(f.Tag.Get("json"), ",")[0]] = f
		}
		for i := 0; i < b.NumField(); i++ {
			f := b.Field(i)
			name := strings.Split(f.Tag.Get("json"), ",")[0]
			if name == "" || name == "-" {
				continue
			}
			g, ok := af[name]
			if !ok {
				out = append(out, path+name)
				continue
			}
			ft := f.Type
			for ft.Kind() == reflect.Ptr {
				ft = ft.Elem()
			}
			if ft.Kind() == reflect.Struct && strings.HasSuffix(ft.PkgPath(), "k8s.io/api/apps/v1") {
				walk(f.Type, g.Type, path+name+".")
			}
		}
	}
	walk(reflect.TypeOf(appsv1.StatefulSet{}), reflect.TypeOf(asv1.StatefulSet{}), "")
	sort.Strings(out)
	return out
}

func zeroUnmodelled(x *appsv1.StatefulSet) {
	x.Spec.MinReadySeconds = 0
	x.Spec.PersistentVolumeClaimRetentionPolicy = nil
	x.Spec.Ordinals = nil
	if x.Spec.UpdateStrategy.RollingUpdate != nil {
		x.Spec.UpdateStrategy.RollingUpdate.MaxUnavailable = nil
	}
	x.Status.AvailableReplicas = 0
}

var expectedUnmodelled = []string{"spec.minReadySeconds", "spec.ordinals", "spec.persistentVolumeClaimRetentionPolicy", "spec.updateStrategy.rollingUpdate.maxUnavailable", "status.availableReplicas"}

func c19Fuzzer(seed int64) *fuzz.Fuzzer {
	custom := func(codecs interface{}) []interface{} { return nil }
	_ = custom
	f := apifuzzer.FuzzerFor(metafuzzer.Funcs, rand.NewSource(seed), scheme.Codecs)
	f.NilChance(0.3).NumElements(0, 3).MaxDepth(12)
	f.Funcs(
		func(q *resource.Quantity, c fuzz.Continue) {
			*q = resource.MustParse(fmt.Sprintf("%d%s", c.Intn(1000), []string{"", "m", "Mi", "Gi", "k"}[c.Intn(5)]))
		},
		func(i *intstr.IntOrString, c fuzz.Continue) {
			if c.RandBool() {
				*i = intstr.FromInt(c.Intn(65536))
			} else {
				*i = intstr.FromString(fmt.Sprintf("p%d", c.Intn(100)))
			}
		},
		func(t *metav1.Time, c fuzz.Continue) {
			*t = metav1.NewTime(time.Unix(int64(c.Intn(2000000000)), 0).UTC())
		},
		func(t *metav1.MicroTime, c fuzz.Continue) {
			*t = metav1.NewMicroTime(time.Unix(int64(c.Intn(2000000000)), int64(c.Intn(1000000))*1000).UTC())
		},
		func(d *metav1.Duration, c fuzz.Continue) { d.Duration = time.Duration(c.Intn(100000)) * time.Second },
		// plain scalars are left at their zero value (= unset, to be defaulted) a third of the time, so that
		// neighbouring fields are set and unset independently (a probe with a timeout but no period, ...)
		func(i *int32, c fuzz.Continue) {
			if c.Intn(3) == 0 {
				*i = 0
			} else {
				*i = int32(c.Intn(1 << 30))
			}
		},
		// optional scalars: nil, pointer to the zero value (explicitly set to 0 / false / ""), or a random value
		func(p **int64, c fuzz.Continue) {
			switch c.Intn(4) {
			case 0:
				*p = nil
			case 1:
				z := int64(0)
				*p = &z
			default:
				v := int64(c.Intn(1 << 31))
				*p = &v
			}
		},
		func(p **int32, c fuzz.Continue) {
			switch c.Intn(4) {
			case 0:
				*p = nil
			case 1:
				z := int32(0)
				*p = &z
			default:
				v := int32(c.Intn(1 << 30))
				*p = &v
			}
		},
		func(p **bool, c fuzz.Continue) {
			switch c.Intn(3) {
			case 0:
				*p = nil
			case 1:
				z := false
				*p = &z
			default:
				v := true
				*p = &v
			}
		},
		func(p **string, c fuzz.Continue) {
			switch c.Intn(3) {
			case 0:
				*p = nil
			case 1:
				z := ""
				*p = &z
			default:
				v := c.RandString()
				*p = &v
			}
		},
		func(m *metav1.FieldsV1, c fuzz.Continue) { m.Raw = []byte(`{"f:x":{}}`) },
		func(p *corev1.PodTemplateSpec, c fuzz.Continue) {
			c.FuzzNoCustom(p)
			// metadata of a template is free-form but small
			p.ObjectMeta = metav1.ObjectMeta{Labels: map[string]string{"app": "web"}}
			if c.RandBool() {
				p.Annotations = map[string]string{"a": c.RandString()}
			}
		},
		func(s *appsv1.StatefulSetSpec, c fuzz.Continue) {
			c.FuzzNoCustom(s)
			switch c.Intn(4) {
			case 0:
				s.PodManagementPolicy = ""
			case 1:
				s.PodManagementPolicy = appsv1.ParallelPodManagement
			case 2:
				s.PodManagementPolicy = appsv1.OrderedReadyPodManagement
			}
			switch c.Intn(4) {
			case 0:
				s.UpdateStrategy = appsv1.StatefulSetUpdateStrategy{}
			case 1:
				s.UpdateStrategy.Type = appsv1.RollingUpdateStatefulSetStrategyType
			case 2:
				s.UpdateStrategy = appsv1.StatefulSetUpdateStrategy{Type: appsv1.OnDeleteStatefulSetStrategyType}
			}
			if c.Intn(4) == 0 {
				s.VolumeClaimTemplates = []corev1.PersistentVolumeClaim{} // empty, not nil
			}
		},
	)
	return f
}

func jsonOf(v interface{}) string {
	b, _ := json.Marshal(v)
	return string(b)
}

// jsonSubset: every value present in a is present and equal in b (b may have more: defaults).
func jsonSubset(a, b interface{}, path string) string {
	switch av := a.(type) {
	case map[string]interface{}:
		bv, ok := b.(map[string]interface{})
		if !ok && len(av) == 0 && b == nil {
			return "" // empty collection vs absent: semantically equal
		}
		if !ok {
			return fmt.Sprintf("%s: object became %T", path, b)
		}
		for k, v := range av {
			if d := jsonSubset(v, bv[k], path+"."+k); d != "" {
				return d
			}
		}
	case []interface{}:
		bv, ok := b.([]interface{})
		if !ok && len(av) == 0 && b == nil {
			return ""
		}
		if !ok || len(bv) != len(av) {
			return fmt.Sprintf("%s: list of %d became %v", path, len(av), b)
		}
		for i := range av {
			if d := jsonSubset(av[i], bv[i], fmt.Sprintf("%s[%d]", path, i)); d != "" {
				return d
			}
		}
	default:
		if !reflect.DeepEqual(a, b) {
			return fmt.Sprintf("%s: %v became %v", path, a, b)
		}
	}
	return ""
}

func firstDiff(a, b string) string {
	for i := 0; i < len(a) && i < len(b); i++ {
		if a[i] != b[i] {
			lo := i - 60
			if lo < 0 {
				lo = 0
			}
			return fmt.Sprintf(" | first difference at %d: %q vs %q", i, a[lo:min(len(a), i+60)], b[lo:min(len(b), i+60)])
		}
	}
	return fmt.Sprintf(" | lengths %d vs %d", len(a), len(b))
}

func toGeneric(v interface{}) interface{} {
	var g interface{}
	b, _ := json.Marshal(v)
	json.Unmarshal(b, &g)
	return g
}

type metaObj struct{ metav1.ObjectMeta }

func runC19(ctx *Ctx) *Result {
	res := newResult()
	report := map[string]int{}
	add := func(i int, clause, msg string, detail interface{}) {
		report[clause]++
		if report[clause] <= 2 {
			res.Violations = append(res.Violations, Witness{Prop: "C19", Clause: clause, Msg: msg, Family: "c19", Case: i, Seed: ctx.Seed, Tier: ctx.Tier, Detail: detail})
		}
	}
	um := unmodelled()
	res.Extra["unmodelled_fields_of_apps_v1"] = um
	if !reflect.DeepEqual(um, expectedUnmodelled) {
		res.Inconclusive = append(res.Inconclusive, fmt.Sprintf("the set of apps/v1 fields the Advanced type does not model changed: %v (the harness zeroes %v)", um, expectedUnmodelled))
	}
	srv := simapi.New()
	srv.SetActor("client")
	hc := helper.NewHijackClient(srv.Kube, srv.PC)
	bg := context.TODO()
	for i := ctx.Lo; i < ctx.hi(); i++ {
		if !ctx.mine(i) {
			continue
		}
		seed := ctx.caseSeed(i)
		f := c19Fuzzer(seed)
		x := &appsv1.StatefulSet{}
		f.Fuzz(x)
		x.TypeMeta = metav1.TypeMeta{Kind: "StatefulSet", APIVersion: "apps/v1"}
		zeroUnmodelled(x)
		res.Evaluations++
		res.sig(jsonOf(x.Spec)[:min(len(jsonOf(x.Spec)), 4000)])
		// 1. conversion round trip
		a, err := helper.FromBuiltinStatefulSet(x)
		if err != nil {
			add(i, "conversion-error", "FromBuiltinStatefulSet: "+err.Error(), jsonOf(x))
			continue
		}
		if a.APIVersion != asv1.SchemeGroupVersion.String() {
			add(i, "typed-wrong", "FromBuiltin result typed "+a.APIVersion, nil)
		}
		y, err := helper.ToBuiltinStatefulSet(a)
		if err != nil {
			add(i, "conversion-error", "ToBuiltinStatefulSet: "+err.Error(), jsonOf(x))
			continue
		}
		if y.APIVersion != "apps/v1" {
			add(i, "typed-wrong", "ToBuiltin result typed "+y.APIVersion, nil)
		}
		if !apiequality.Semantic.DeepEqual(x, y) {
			add(i, "round-trip-differs", "ToBuiltin(FromBuiltin(x)) != x: "+jsonSubset(toGeneric(x), toGeneric(y), ""), map[string]interface{}{"x": jsonOf(x), "y": jsonOf(y)})
		}
		res.Stats["round_trips"]++
		if x.Spec.VolumeClaimTemplates != nil && len(x.Spec.VolumeClaimTemplates) == 0 {
			res.Stats["objects_with_empty_nonnil_collections"]++
		}
		// 2. defaulting idempotence
		d1 := a.DeepCopy()
		asv1.SetObjectDefaults_StatefulSet(d1)
		d2 := d1.DeepCopy()
		asv1.SetObjectDefaults_StatefulSet(d2)
		if !apiequality.Semantic.DeepEqual(d1, d2) {
			add(i, "defaulting-not-idempotent", "SetObjectDefaults applied twice differs from once: "+jsonSubset(toGeneric(d1), toGeneric(d2), ""), jsonOf(a))
		}
		res.Stats["defaulting_idempotence_checks"]++
		// 3. lists
		n := 1 + int(seed%3)
		l := &asv1.StatefulSetList{}
		for k := 0; k < n; k++ {
			it := a.DeepCopy()
			it.Name = fmt.Sprintf("s%d", k)
			if k%2 == 1 {
				// every other item lacks what its neighbour has (and the other way round)
				it.Annotations, it.Labels = nil, map[string]string{"only-on": it.Name}
				it.Spec.Replicas = nil
				it.Spec.VolumeClaimTemplates = nil
				it.Status = asv1.StatefulSetStatus{}
			} else {
				if it.Annotations == nil {
					it.Annotations = map[string]string{}
				}
				it.Annotations[helper.DeleteSlotsAnn] = fmt.Sprintf("[%d]", k)
			}
			l.Items = append(l.Items, *it)
		}
		bl, err := helper.ToBuiltinStetefulsetList(l)
		if err != nil || len(bl.Items) != n {
			add(i, "list-length", fmt.Sprintf("list of %d became %v (err %v)", n, bl, err), nil)
		} else {
			for k := range bl.Items {
				if bl.Items[k].Name != fmt.Sprintf("s%d", k) || bl.Items[k].APIVersion != "apps/v1" {
					add(i, "list-order-or-type", fmt.Sprintf("item %d is %s typed %s", k, bl.Items[k].Name, bl.Items[k].APIVersion), nil)
				}
				// each listed item must be what converting that item alone gives
				if single, err := helper.ToBuiltinStatefulSet(&l.Items[k]); err == nil && !apiequality.Semantic.DeepEqual(*single, bl.Items[k]) {
					add(i, "list-item-mixed-up", fmt.Sprintf("item %d of a converted list differs from the same item converted alone: %s%s", k,
						jsonSubset(toGeneric(single), toGeneric(bl.Items[k]), ""), jsonSubset(toGeneric(bl.Items[k]), toGeneric(single), "")), nil)
				}
			}
		}
		// 4. through the real hijack client over simapi
		srv.Reset()
		in := x.DeepCopy()
		in.ObjectMeta = metav1.ObjectMeta{Name: "web", Namespace: "ns", Labels: x.Labels, Annotations: x.Annotations}
		created, err := hc.AppsV1().StatefulSets("ns").Create(bg, in, metav1.CreateOptions{})
		if err != nil {
			add(i, "hijack-create-failed", err.Error(), jsonOf(in))
			continue
		}
		got, err := hc.AppsV1().StatefulSets("ns").Get(bg, "web", metav1.GetOptions{})
		if err != nil {
			add(i, "hijack-get-failed", err.Error(), nil)
			continue
		}
		if created == nil || got == nil {
			add(i, "nil-object-without-error", fmt.Sprintf("a successful call through the hijack client returned no object (Create: nil=%v, Get: nil=%v)", created == nil, got == nil), nil)
			continue
		}
		res.Stats["hijack_create_get"]++
		if got.APIVersion != "apps/v1" || created.APIVersion != "apps/v1" {
			add(i, "typed-wrong", "hijack client returned "+got.APIVersion, nil)
		}
		if !apiequality.Semantic.DeepEqual(created, got) {
			add(i, "get-differs-from-create", jsonSubset(toGeneric(created), toGeneric(got), ""), nil)
		}
		if d := jsonSubset(toGeneric(in.Spec), toGeneric(got.Spec), "spec"); d != "" {
			add(i, "field-lost-through-hijack", "a field set in the submitted object did not survive Create->Get: "+d, jsonOf(in.Spec))
		}
		if d := jsonSubset(toGeneric(in.Labels), toGeneric(got.Labels), "labels"); d != "" && in.Labels != nil {
			add(i, "field-lost-through-hijack", d, nil)
		}
		storedBefore := srv.Get(simapi.Sets, "ns", "web").(*asv1.StatefulSet)
		again, err := hc.AppsV1().StatefulSets("ns").Update(bg, got.DeepCopy(), metav1.UpdateOptions{})
		if err != nil {
			add(i, "hijack-update-failed", err.Error(), nil)
			continue
		}
		if again == nil {
			add(i, "nil-object-without-error", "a successful Update through the hijack client returned no object", nil)
			continue
		}
		if got2, err := hc.AppsV1().StatefulSets("ns").Get(bg, "web", metav1.GetOptions{}); err == nil && got2 != nil && !apiequality.Semantic.DeepEqual(again, got2) {
			add(i, "get-differs-from-update", jsonSubset(toGeneric(again), toGeneric(got2), "")+jsonSubset(toGeneric(got2), toGeneric(again), ""), nil)
		}
		storedAfter := srv.Get(simapi.Sets, "ns", "web").(*asv1.StatefulSet)
		res.Stats["hijack_resubmits"]++
		if !apiequality.Semantic.DeepEqual(storedBefore.Spec.Template, storedAfter.Spec.Template) || storedAfter.Generation != storedBefore.Generation {
			add(i, "resubmit-changed-template", "re-submitting the read-back object changed the stored object (generation "+fmt.Sprint(storedBefore.Generation, "->", storedAfter.Generation)+"): "+
				jsonSubset(toGeneric(storedBefore.Spec), toGeneric(storedAfter.Spec), "spec")+jsonSubset(toGeneric(storedAfter.Spec), toGeneric(storedBefore.Spec), "spec"), nil)
		}
		// a second object, then List and Patch through the hijack client
		in2 := in.DeepCopy()
		in2.Name = "web2"
		in2.Annotations, in2.Labels = map[string]string{"only": "web2"}, nil
		in2.Spec.VolumeClaimTemplates = nil
		rep2 := int32(7)
		in2.Spec.Replicas = &rep2
		if _, err := hc.AppsV1().StatefulSets("ns").Create(bg, in2, metav1.CreateOptions{}); err != nil {
			add(i, "hijack-create-failed", err.Error(), nil)
		} else if l, err := hc.AppsV1().StatefulSets("ns").List(bg, metav1.ListOptions{}); err != nil {
			add(i, "hijack-list-failed", err.Error(), nil)
		} else if l == nil {
			add(i, "nil-object-without-error", "a successful List through the hijack client returned no list", nil)
		} else {
			res.Stats["hijack_lists"]++
			if len(l.Items) != 2 || l.Items[0].Name != "web" || l.Items[1].Name != "web2" {
				add(i, "list-length", fmt.Sprintf("List through the hijack client returned %d items", len(l.Items)), nil)
			} else {
				for k := range l.Items {
					if l.Items[k].APIVersion != "apps/v1" {
						add(i, "list-order-or-type", "listed item typed "+l.Items[k].APIVersion, nil)
					}
				}
				if !apiequality.Semantic.DeepEqual(l.Items[0].Spec, again.Spec) {
					add(i, "list-item-differs-from-get", jsonSubset(toGeneric(again.Spec), toGeneric(l.Items[0].Spec), "spec"), nil)
				}
				for k := range l.Items {
					g, err := hc.AppsV1().StatefulSets("ns").Get(bg, l.Items[k].Name, metav1.GetOptions{})
					if err == nil && !apiequality.Semantic.DeepEqual(*g, l.Items[k]) {
						add(i, "list-item-differs-from-get", fmt.Sprintf("listed %s differs from Get: %s%s", g.Name, jsonSubset(toGeneric(g), toGeneric(l.Items[k]), ""), jsonSubset(toGeneric(l.Items[k]), toGeneric(g), "")), nil)
					}
				}
			}
		}
		if pd, err := hc.AppsV1().StatefulSets("ns").Patch(bg, "web", types.MergePatchType, []byte(`{"metadata":{"labels":{"patched":"yes"}}}`), metav1.PatchOptions{}); err != nil {
			add(i, "hijack-patch-failed", err.Error(), nil)
		} else if pd == nil {
			add(i, "nil-object-without-error", "a successful Patch through the hijack client returned no object", nil)
		} else {
			res.Stats["hijack_patches"]++
			stored := srv.Get(simapi.Sets, "ns", "web").(*asv1.StatefulSet)
			if pd.APIVersion != "apps/v1" || pd.Labels["patched"] != "yes" || stored.Labels["patched"] != "yes" || jsonOf(stored.Spec) != jsonOf(storedAfter.Spec) {
				add(i, "patch-through-hijack", fmt.Sprintf("a metadata patch through the hijack client came back wrong or changed the spec: typed %s, label on result %q, label stored %q, spec diff: %s%s", pd.APIVersion, pd.Labels["patched"], stored.Labels["patched"],
					jsonSubset(toGeneric(storedAfter.Spec), toGeneric(stored.Spec), "spec"), jsonSubset(toGeneric(stored.Spec), toGeneric(storedAfter.Spec), "spec")+firstDiff(jsonOf(stored.Spec), jsonOf(storedAfter.Spec))), nil)
			}
			again.ResourceVersion = pd.ResourceVersion
		}
		// Apply through the hijack client (conversion of the apply configuration, then the typed result)
		{
			part := int32(seed % 4)
			rep := int32(seed % 5)
			ac := appsapplyv1.StatefulSet("applied", "ns").
				WithAnnotations(map[string]string{helper.DeleteSlotsAnn: "[1]"}).
				WithSpec(appsapplyv1.StatefulSetSpec().
					WithReplicas(rep).WithServiceName("svc").
					WithPodManagementPolicy(appsv1.ParallelPodManagement).
					WithRevisionHistoryLimit(int32(seed % 7)).
					WithSelector(metaapplyv1.LabelSelector().WithMatchLabels(map[string]string{"app": "web"})).
					WithUpdateStrategy(appsapplyv1.StatefulSetUpdateStrategy().WithType(appsv1.RollingUpdateStatefulSetStrategyType).
						WithRollingUpdate(appsapplyv1.RollingUpdateStatefulSetStrategy().WithPartition(part))).
					WithTemplate(coreapplyv1.PodTemplateSpec().WithLabels(map[string]string{"app": "web"}).
						WithSpec(coreapplyv1.PodSpec().WithContainers(coreapplyv1.Container().WithName("c").WithImage("img:v1")))))
			got, err := hc.AppsV1().StatefulSets("ns").Apply(bg, ac, metav1.ApplyOptions{FieldManager: "verif"})
			if err != nil {
				add(i, "hijack-apply-failed", err.Error(), nil)
			} else if got == nil {
				add(i, "nil-object-without-error", "a successful Apply through the hijack client returned no object", nil)
			} else {
				res.Stats["hijack_applies"]++
				okApply := got.APIVersion == "apps/v1" && got.Spec.Replicas != nil && *got.Spec.Replicas == rep && got.Spec.ServiceName == "svc" &&
					got.Spec.PodManagementPolicy == appsv1.ParallelPodManagement && got.Spec.RevisionHistoryLimit != nil && *got.Spec.RevisionHistoryLimit == int32(seed%7) &&
					got.Spec.UpdateStrategy.RollingUpdate != nil && got.Spec.UpdateStrategy.RollingUpdate.Partition != nil && *got.Spec.UpdateStrategy.RollingUpdate.Partition == part &&
					len(got.Spec.Template.Spec.Containers) == 1 && got.Spec.Template.Spec.Containers[0].Image == "img:v1" && got.Annotations[helper.DeleteSlotsAnn] == "[1]" &&
					got.Spec.Selector != nil && got.Spec.Selector.MatchLabels["app"] == "web"
				if !okApply {
					add(i, "apply-through-hijack", "a field of the apply configuration did not survive Apply through the hijack client: "+jsonOf(got.Spec), nil)
				}
				if st, ok := srv.Get(simapi.Sets, "ns", "applied").(*asv1.StatefulSet); !ok || st.APIVersion != asv1.SchemeGroupVersion.String() {
					add(i, "apply-through-hijack", "the applied object was not stored as an Advanced StatefulSet", nil)
				}
			}
		}
		// ApplyStatus through the hijack client: typed result, status stored, spec untouched
		{
			specBefore := jsonOf(srv.Get(simapi.Sets, "ns", "web").(*asv1.StatefulSet).Spec)
			ac := appsapplyv1.StatefulSet("web", "ns").WithStatus(appsapplyv1.StatefulSetStatus().WithReplicas(int32(seed % 9)).WithCurrentRevision("rev-applied"))
			as, err := hc.AppsV1().StatefulSets("ns").ApplyStatus(bg, ac, metav1.ApplyOptions{FieldManager: "verif"})
			if err != nil {
				add(i, "hijack-applystatus-failed", err.Error(), nil)
			} else if as == nil {
				add(i, "nil-object-without-error", "a successful ApplyStatus through the hijack client returned no object", nil)
			} else {
				res.Stats["hijack_apply_status"]++
				stored := srv.Get(simapi.Sets, "ns", "web").(*asv1.StatefulSet)
				if as.APIVersion != "apps/v1" || as.Status.Replicas != int32(seed%9) || as.Status.CurrentRevision != "rev-applied" || stored.Status.Replicas != int32(seed%9) || jsonOf(stored.Spec) != specBefore {
					add(i, "apply-through-hijack", fmt.Sprintf("ApplyStatus through the hijack client: typed %s, returned status.replicas=%d currentRevision=%q, stored status.replicas=%d, spec changed=%v", as.APIVersion, as.Status.Replicas, as.Status.CurrentRevision, stored.Status.Replicas, jsonOf(stored.Spec) != specBefore), nil)
				}
				again.ResourceVersion = as.ResourceVersion
			}
		}
		// status through UpdateStatus
		st := again.DeepCopy()
		st.Status = *x.Status.DeepCopy()
		if us, err := hc.AppsV1().StatefulSets("ns").UpdateStatus(bg, st, metav1.UpdateOptions{}); err == nil {
			g2, _ := hc.AppsV1().StatefulSets("ns").Get(bg, "web", metav1.GetOptions{})
			if us == nil || g2 == nil {
				add(i, "nil-object-without-error", "a successful UpdateStatus / Get through the hijack client returned no object", nil)
			} else if !apiequality.Semantic.DeepEqual(g2.Status, x.Status) || !apiequality.Semantic.DeepEqual(us.Status, x.Status) {
				add(i, "status-lost-through-hijack", jsonSubset(toGeneric(x.Status), toGeneric(g2.Status), "status")+jsonSubset(toGeneric(x.Status), toGeneric(us.Status), "status"), nil)
			}
			res.Stats["hijack_status_round_trips"]++
		} else {
			add(i, "hijack-updatestatus-failed", err.Error(), nil)
		}
		// errors of the underlying client come back as errors (same reason), never as a silent success: every verb
		// once with its underlying call answered by a 500
		if cur, _ := hc.AppsV1().StatefulSets("ns").Get(bg, "web", metav1.GetOptions{}); i%4 == 0 && cur != nil {
			verbs := []struct {
				name string
				call func() (interface{}, error)
			}{
				{"Create", func() (interface{}, error) {
					n := in.DeepCopy()
					n.Name = "web3"
					o, err := hc.AppsV1().StatefulSets("ns").Create(bg, n, metav1.CreateOptions{})
					return o, err
				}},
				{"Update", func() (interface{}, error) {
					o, err := hc.AppsV1().StatefulSets("ns").Update(bg, cur.DeepCopy(), metav1.UpdateOptions{})
					return o, err
				}},
				{"UpdateStatus", func() (interface{}, error) {
					o, err := hc.AppsV1().StatefulSets("ns").UpdateStatus(bg, cur.DeepCopy(), metav1.UpdateOptions{})
					return o, err
				}},
				{"Get", func() (interface{}, error) {
					o, err := hc.AppsV1().StatefulSets("ns").Get(bg, "web", metav1.GetOptions{})
					return o, err
				}},
				{"List", func() (interface{}, error) {
					o, err := hc.AppsV1().StatefulSets("ns").List(bg, metav1.ListOptions{})
					return o, err
				}},
				{"Patch", func() (interface{}, error) {
					o, err := hc.AppsV1().StatefulSets("ns").Patch(bg, "web", types.MergePatchType, []byte(`{"metadata":{"labels":{"p":"q"}}}`), metav1.PatchOptions{})
					return o, err
				}},
				{"Apply", func() (interface{}, error) {
					ac := appsapplyv1.StatefulSet("applied2", "ns").WithSpec(appsapplyv1.StatefulSetSpec().WithReplicas(1))
					o, err := hc.AppsV1().StatefulSets("ns").Apply(bg, ac, metav1.ApplyOptions{FieldManager: "verif"})
					return o, err
				}},
				{"ApplyStatus", func() (interface{}, error) {
					ac := appsapplyv1.StatefulSet("web", "ns").WithStatus(appsapplyv1.StatefulSetStatus().WithReplicas(1))
					o, err := hc.AppsV1().StatefulSets("ns").ApplyStatus(bg, ac, metav1.ApplyOptions{FieldManager: "verif"})
					return o, err
				}},
				{"Watch", func() (interface{}, error) {
					// (the watch reactor of a separate fake clientset refuses to open the watch)
					pc := pcfake.NewSimpleClientset()
					pc.PrependWatchReactor("statefulsets", func(a ktesting.Action) (bool, watch.Interface, error) {
						return true, nil, apierrors.NewInternalError(fmt.Errorf("injected: watch refused"))
					})
					wi, err := helper.NewHijackClient(kubefake.NewSimpleClientset(), pc).AppsV1().StatefulSets("ns").Watch(bg, metav1.ListOptions{})
					if err == nil && wi != nil {
						wi.Stop()
					}
					return wi, err
				}},
			}
			for vi, v := range verbs {
				srv.ClearFaults()
				srv.BeginReconcile(5000 + vi)
				srv.AddFault(&simapi.Fault{Nth: 1, Kind: "500", Mode: "before"})
				var o interface{}
				var err error
				func() {
					defer func() {
						if p := recover(); p != nil {
							err = nil
							o = fmt.Sprintf("panic: %v", p)
						}
					}()
					o, err = v.call()
				}()
				srv.EndReconcile()
				srv.ClearFaults()
				res.Stats["hijack_calls_with_failing_backend"]++
				if ps, isPanic := o.(string); isPanic {
					add(i, "error-not-passed-on", fmt.Sprintf("%s through the hijack client with a failing backend: %s", v.name, ps), nil)
				} else if err == nil {
					add(i, "error-not-passed-on", fmt.Sprintf("%s through the hijack client: the underlying call was answered with a 500 but the hijack client reported success", v.name), nil)
				} else if !apierrors.IsInternalError(err) {
					add(i, "error-not-passed-on", fmt.Sprintf("%s through the hijack client: the underlying 500 came back as %v", v.name, err), nil)
				}
			}
		}
		res.sample(2, map[string]interface{}{"case": i, "fuzzed_apps_v1_spec": toGeneric(x.Spec)})
	}
	// 5. slot codec + pause flag (deterministic part runs in shard 0 only)
	if ctx.mine(ctx.Lo) || ctx.Only >= 0 {
		c19Codec(ctx, res, add)
	}
	for k, n := range report {
		res.Stats["violations_"+k] = n
	}
	return res
}

func c19Codec(ctx *Ctx, res *Result, add func(int, string, string, interface{})) {
	r := rand.New(rand.NewSource(ctx.Seed))
	var cases [][]int32
	elems := []int32{math.MinInt32, -1, 0, 1, 2, 5, math.MaxInt32 - 1, math.MaxInt32}
	for idx := 0; idx < 1<<len(elems); idx++ {
		var s []int32
		for b, e := range elems {
			if idx&(1<<b) != 0 {
				s = append(s, e)
			}
		}
		cases = append(cases, s)
	}
	for k := 0; k < 2000; k++ {
		var s []int32
		for n := r.Intn(6); n > 0; n-- {
			s = append(s, int32(r.Uint32()))
		}
		cases = append(cases, s)
	}
	annVariants := []map[string]string{nil, {}, {"other": "x"}, {"other": "x", helper.PausedReconcileAnn: "true"}, {helper.DeleteSlotsAnn: "[9]", "k": "v"}}
	for ci, s := range cases {
		for _, base := range annVariants {
			res.Evaluations++
			res.Stats["slot_codec_cases"]++
			o := &metaObj{}
			if ci%2 == 0 {
				// an object as read from the API server: it has an identity and a version, and is edited locally
				o.UID, o.ResourceVersion = types.UID(fmt.Sprintf("uid-%d", ci%7)), fmt.Sprint(100+ci%3)
			}
			if base != nil {
				o.Annotations = map[string]string{}
				for k, v := range base {
					o.Annotations[k] = v
				}
			}
			want := sets.NewInt32(s...)
			if err := helper.SetDeleteSlots(o, want); err != nil {
				add(-1, "slot-codec-error", err.Error(), s)
				continue
			}
			got := helper.GetDeleteSlots(o)
			if !got.Equal(want) {
				add(-1, "slot-codec-roundtrip", fmt.Sprintf("SetDeleteSlots(%v) then GetDeleteSlots = %v", s, got.List()), nil)
			}
			_, has := o.Annotations[helper.DeleteSlotsAnn]
			if len(s) == 0 && has {
				add(-1, "slot-codec-empty-keeps-key", fmt.Sprintf("writing an empty set left the annotation (base %v)", base), nil)
			}
			for k, v := range base {
				if k != helper.DeleteSlotsAnn && o.Annotations[k] != v {
					add(-1, "slot-codec-disturbs-annotation", fmt.Sprintf("annotation %s changed from %q to %q", k, v, o.Annotations[k]), nil)
				}
			}
			for k := range o.Annotations {
				if _, ok := base[k]; !ok && k != helper.DeleteSlotsAnn {
					add(-1, "slot-codec-disturbs-annotation", "annotation "+k+" appeared", nil)
				}
			}
			// a second in-memory copy of the same object version (the informer's original next to the copy being
			// edited): the two answer independently of each other, whatever the order of the calls
			twin := &metaObj{}
			twin.UID, twin.ResourceVersion = o.UID, o.ResourceVersion
			twinWant := sets.NewInt32()
			if base != nil {
				twin.Annotations = map[string]string{}
				for k, v := range base {
					twin.Annotations[k] = v
				}
				if _, ok := base[helper.DeleteSlotsAnn]; ok {
					twinWant.Insert(9)
				}
			}
			res.Stats["slot_codec_twin_reads"]++
			if got := helper.GetDeleteSlots(twin); !got.Equal(twinWant) {
				add(-1, "slot-codec-copies-not-independent", fmt.Sprintf("the untouched copy (annotations %v) reads %v after SetDeleteSlots(%v) on the other copy", base, got.List(), s), nil)
			}
			if got := helper.GetDeleteSlots(o); !got.Equal(want) {
				add(-1, "slot-codec-copies-not-independent", fmt.Sprintf("the edited copy reads %v instead of %v after the untouched copy was read", got.List(), s), nil)
			}
			// add = union
			extra := cases[(ci*7+3)%len(cases)]
			if err := helper.AddDeleteSlots(o, sets.NewInt32(extra...)); err != nil {
				add(-1, "slot-codec-error", err.Error(), nil)
			}
			if u := helper.GetDeleteSlots(o); !u.Equal(want.Union(sets.NewInt32(extra...))) {
				add(-1, "slot-codec-add-not-union", fmt.Sprintf("%v + %v = %v", s, extra, u.List()), nil)
			}
			// pause flag
			p := &metaObj{}
			if base != nil {
				p.Annotations = map[string]string{}
				for k, v := range base {
					p.Annotations[k] = v
				}
			}
			for _, flag := range []bool{true, false, true, true, false} {
				helper.SetPausedReconcile(p, flag)
				if helper.GetPausedReconcile(p) != flag {
					add(-1, "pause-flag-roundtrip", fmt.Sprintf("SetPausedReconcile(%v) then Get = %v", flag, !flag), nil)
				}
				for k, v := range base {
					if k != helper.PausedReconcileAnn && p.Annotations[k] != v {
						add(-1, "pause-flag-disturbs-annotation", "annotation "+k+" changed", nil)
					}
				}
			}
			if ci < 300 {
				res.sig(fmt.Sprint("codec", s, base))
			}
		}
	}
	res.sample(4, map[string]interface{}{"slot_codec_case": []int64{math.MinInt32, -1, 0, 5, math.MaxInt32}})
}

func init() {
	register(&Check{Prop: "C19", Level: "exploration",
		Rule:   "apps/v1 StatefulSets generated by gofuzz with apimachinery's meta fuzzer functions plus custom functions (Quantity, IntOrString, Time, nil vs empty collections, every optional pointer nil/non-nil, defaulted and undefaulted enums) over the whole modelled schema; per object: conversion round trip, defaulting idempotence, list conversion, Create/Get/Update/UpdateStatus through the real hijack client over simapi; plus the slot-set / pause-flag codecs over all subsets of int32 extremes x annotation maps (nil, empty, others) and 2000 random int32 sets; distinct = distinct generated spec",
		Assume: []string{"the five apps/v1 fields the Advanced type does not model (derived by reflection at run time and recorded in the evidence) are zeroed before the comparison", "metadata of the object written through the hijack client is limited to name/namespace/labels/annotations (the API server owns the rest)"},
		Cases:  scenarioCases(8000, 120000), Run: runC19,
		Floors: []string{"round_trips", "defaulting_idempotence_checks", "hijack_create_get", "hijack_resubmits", "hijack_lists", "hijack_patches", "hijack_applies", "hijack_apply_status", "hijack_calls_with_failing_backend", "slot_codec_cases", "objects_with_empty_nonnil_collections"}})
}
