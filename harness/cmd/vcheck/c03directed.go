package main

import (
	"fmt"
	"sort"

	asv1 "github.com/pingcap/advanced-statefulset/client/apis/apps/v1"

	"verif/harness/mon"
	"verif/harness/refspec"
	"verif/harness/simapi"
	"verif/harness/world"
)

// Headline scenario of C03: from a converged healthy set, the user puts ordinal k
// into delete-slots (with or without decrementing replicas). Until re-convergence
// the multiset of deleted pods must be exactly {S-k} (empty if no pod k existed)
// and the creates exactly spec_new \ spec_old.
func slotScenario(r0 int, slots0 []int32, k int, decrement bool, pol asv1.PodManagementPolicyType, templ bool) func(*fam) {
	return func(f *fam) {
		w, r := f.w, f.r
		r.Sets = []string{"web"}
		p := int32(0)
		w.Srv.Seed(simapi.Sets, world.NewSet(world.SetOpts{Name: "web", Replicas: int32(r0), Slots: slots0, Policy: pol, Partition: &p, HistLimit: 2, Claims: []string{"data"}}))
		r.Trace = append(r.Trace, fmt.Sprintf("directed slot scenario: replicas=%d slots=%v add slot %d decrement=%v policy=%s", r0, slots0, k, decrement, pol))
		cr := r.Calm(2)
		if !cr.Converged {
			f.res.Inconclusive = append(f.res.Inconclusive, fmt.Sprintf("directed slot scenario %d did not reach its healthy start state", f.idx))
			return
		}
		old := refspec.DesiredSet(r0, toMap(slots0))
		newSlots := append(append([]int32{}, slots0...), int32(k))
		sort.Slice(newSlots, func(i, j int) bool { return newSlots[i] < newSlots[j] })
		r1 := r0
		if decrement && r1 > 0 {
			r1--
		}
		neu := refspec.DesiredSet(r1, toMap(newSlots))
		var deleted, created []string
		inner := r.OnRecord
		r.OnRecord = func(rec *world.Record) {
			inner(rec)
			for _, c := range rec.Calls {
				if c.Res == simapi.Pods && c.Verb == "delete" && c.OK() {
					deleted = append(deleted, c.Name)
				}
				if c.Res == simapi.Pods && c.Verb == "create" && c.OK() {
					created = append(created, c.Name)
				}
			}
		}
		w.EditSet("web", func(s *asv1.StatefulSet) {
			world.SetSlots(s, newSlots)
			s.Spec.Replicas = world.I32(int32(r1))
		})
		r.Trace = append(r.Trace, fmt.Sprintf("user: slots=%v replicas=%d", newSlots, r1))
		cr = r.Calm(2)
		r.OnRecord = inner
		f.st.Inc("headline_slot_scenarios")
		if !cr.Converged {
			f.report(violC03("headline-not-reconverged", "after adding slot %d the set did not re-converge: %v", k, cr.NotConv))
			return
		}
		var wantDel, wantNew []string
		for _, o := range refspec.SortedInts(old) {
			if !neu[o] {
				wantDel = append(wantDel, fmt.Sprintf("web-%d", o))
			}
		}
		for _, o := range refspec.SortedInts(neu) {
			if !old[o] {
				wantNew = append(wantNew, fmt.Sprintf("web-%d", o))
			}
		}
		sort.Strings(deleted)
		sort.Strings(created)
		sort.Strings(wantDel)
		sort.Strings(wantNew)
		if fmt.Sprint(deleted) != fmt.Sprint(wantDel) {
			f.report(violC03("headline-wrong-deletes", "replicas %d->%d slots %v->%v: deleted pods %v, expected exactly %v", r0, r1, slots0, newSlots, deleted, wantDel))
		}
		if fmt.Sprint(created) != fmt.Sprint(wantNew) {
			f.report(violC03("headline-wrong-creates", "replicas %d->%d slots %v->%v: created pods %v, expected exactly %v", r0, r1, slots0, newSlots, created, wantNew))
		}
		if decrement && old[k] && (len(wantDel) != 1 || wantDel[0] != fmt.Sprintf("web-%d", k)) {
			f.res.Inconclusive = append(f.res.Inconclusive, "directed slot scenario: reference expectation is inconsistent")
		}
	}
}

func toMap(l []int32) map[int]bool {
	m := map[int]bool{}
	for _, x := range l {
		m[int(x)] = true
	}
	return m
}

func init() {
	for _, pol := range []asv1.PodManagementPolicyType{asv1.OrderedReadyPodManagement, asv1.ParallelPodManagement} {
		for _, dec := range []bool{true, false} {
			directedC03 = append(directedC03,
				slotScenario(3, nil, 1, dec, pol, false),
				slotScenario(4, nil, 0, dec, pol, false),
				slotScenario(3, []int32{1}, 3, dec, pol, false),
				slotScenario(3, []int32{0, 2}, 4, dec, pol, false),
				slotScenario(2, nil, 5, dec, pol, false), // slot beyond the range: nothing happens
				slotScenario(5, []int32{2}, 0, dec, pol, false),
			)
		}
	}
}

func violC03(clause, f string, a ...interface{}) mon.Violation { return mon.V("C03", clause, f, a...) }
