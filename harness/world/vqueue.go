package world

import (
	"fmt"
	"sort"
	"sync"
	"time"

	"k8s.io/client-go/util/workqueue"
)

// VQueue is a deterministic work queue on virtual time implementing
// workqueue.RateLimitingInterface with the semantics of client-go's queue
// (dirty/processing sets, per-item exponential back-off, Forget). It also
// records every call the controller makes on it (the C16 observation point).
type VQueue struct {
	mu         sync.Mutex
	queue      []interface{}
	dirty      map[interface{}]bool
	processing map[interface{}]bool
	delayed    map[interface{}]time.Duration // item -> virtual ready time
	failures   map[interface{}]int
	Now        time.Duration
	Ops        []QOp
	shutdown   bool
	BaseDelay  time.Duration
	MaxDelay   time.Duration
}

type QOp struct {
	Op   string // add get done addRateLimited forget addAfter
	Item string
	N    int // NumRequeues after the op
}

func NewVQueue() *VQueue {
	return &VQueue{dirty: map[interface{}]bool{}, processing: map[interface{}]bool{}, delayed: map[interface{}]time.Duration{},
		failures: map[interface{}]int{}, BaseDelay: 5 * time.Millisecond, MaxDelay: 1000 * time.Second}
}

var _ workqueue.RateLimitingInterface = &VQueue{}

func (q *VQueue) rec(op string, item interface{}) {
	q.Ops = append(q.Ops, QOp{Op: op, Item: fmt.Sprint(item), N: q.failures[item]})
}

func (q *VQueue) add(item interface{}) {
	if q.shutdown || q.dirty[item] {
		return
	}
	q.dirty[item] = true
	if q.processing[item] {
		return
	}
	q.queue = append(q.queue, item)
}

func (q *VQueue) Add(item interface{}) {
	q.mu.Lock()
	defer q.mu.Unlock()
	q.add(item)
	q.rec("add", item)
}

func (q *VQueue) Len() int {
	q.mu.Lock()
	defer q.mu.Unlock()
	return len(q.queue)
}

// Peek returns the item Get would return next, or nil.
func (q *VQueue) Peek() interface{} {
	q.mu.Lock()
	defer q.mu.Unlock()
	if len(q.queue) == 0 {
		return nil
	}
	return q.queue[0]
}

func (q *VQueue) Get() (interface{}, bool) {
	q.mu.Lock()
	defer q.mu.Unlock()
	if len(q.queue) == 0 {
		// a real queue would block; the stepping engine never calls Get on an empty queue
		return nil, true
	}
	item := q.queue[0]
	q.queue = q.queue[1:]
	q.processing[item] = true
	delete(q.dirty, item)
	q.rec("get", item)
	return item, false
}

func (q *VQueue) Done(item interface{}) {
	q.mu.Lock()
	defer q.mu.Unlock()
	delete(q.processing, item)
	if q.dirty[item] {
		q.queue = append(q.queue, item)
	}
	q.rec("done", item)
}

func (q *VQueue) ShutDown()          { q.mu.Lock(); q.shutdown = true; q.mu.Unlock() }
func (q *VQueue) ShutDownWithDrain() { q.ShutDown() }
func (q *VQueue) ShuttingDown() bool { q.mu.Lock(); defer q.mu.Unlock(); return q.shutdown }

func (q *VQueue) addAfter(item interface{}, d time.Duration) {
	if d <= 0 {
		q.add(item)
		return
	}
	at := q.Now + d
	if old, ok := q.delayed[item]; !ok || at < old {
		q.delayed[item] = at
	}
}

func (q *VQueue) AddAfter(item interface{}, d time.Duration) {
	q.mu.Lock()
	defer q.mu.Unlock()
	q.addAfter(item, d)
	q.rec("addAfter", item)
}

func (q *VQueue) AddRateLimited(item interface{}) {
	q.mu.Lock()
	defer q.mu.Unlock()
	exp := q.failures[item]
	q.failures[item]++
	d := q.BaseDelay
	for i := 0; i < exp && d < q.MaxDelay; i++ {
		d *= 2
	}
	if d > q.MaxDelay {
		d = q.MaxDelay
	}
	q.addAfter(item, d)
	q.rec("addRateLimited", item)
}

func (q *VQueue) Forget(item interface{}) {
	q.mu.Lock()
	defer q.mu.Unlock()
	delete(q.failures, item)
	q.rec("forget", item)
}

func (q *VQueue) NumRequeues(item interface{}) int {
	q.mu.Lock()
	defer q.mu.Unlock()
	return q.failures[item]
}

// Delayed returns the items waiting for their back-off, sorted by ready time.
func (q *VQueue) Delayed() []string {
	q.mu.Lock()
	defer q.mu.Unlock()
	type kv struct {
		k string
		t time.Duration
	}
	var l []kv
	for k, t := range q.delayed {
		l = append(l, kv{fmt.Sprint(k), t})
	}
	sort.Slice(l, func(i, j int) bool { return l[i].t < l[j].t || (l[i].t == l[j].t && l[i].k < l[j].k) })
	out := make([]string, len(l))
	for i := range l {
		out[i] = l[i].k
	}
	return out
}

// NextReady returns the virtual time at which the earliest delayed item becomes ready.
func (q *VQueue) NextReady() (time.Duration, bool) {
	q.mu.Lock()
	defer q.mu.Unlock()
	first := true
	var min time.Duration
	for _, t := range q.delayed {
		if first || t < min {
			min, first = t, false
		}
	}
	return min, !first
}

// Advance moves virtual time forward to t and releases the items that became ready.
func (q *VQueue) Advance(t time.Duration) {
	q.mu.Lock()
	defer q.mu.Unlock()
	if t > q.Now {
		q.Now = t
	}
	var ready []string
	items := map[string]interface{}{}
	for k, at := range q.delayed {
		if at <= q.Now {
			ready = append(ready, fmt.Sprint(k))
			items[fmt.Sprint(k)] = k
		}
	}
	sort.Strings(ready)
	for _, k := range ready {
		delete(q.delayed, items[k])
		q.add(items[k])
	}
}

// Idle reports whether nothing is queued, processing or waiting.
func (q *VQueue) Idle() bool {
	q.mu.Lock()
	defer q.mu.Unlock()
	return len(q.queue) == 0 && len(q.processing) == 0 && len(q.delayed) == 0
}
