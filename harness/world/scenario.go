package world

import (
	"fmt"
	"math/rand"
	"sort"
	"strings"

	asv1 "github.com/pingcap/advanced-statefulset/client/apis/apps/v1"
	"github.com/pingcap/advanced-statefulset/client/apis/apps/v1/helper"
	appsv1 "k8s.io/api/apps/v1"
	corev1 "k8s.io/api/core/v1"
	metav1 "k8s.io/apimachinery/pkg/apis/meta/v1"
	"k8s.io/apimachinery/pkg/runtime"
	"k8s.io/apimachinery/pkg/types"

	"verif/harness/refspec"
	"verif/harness/simapi"
)

// Cfg selects which kinds of hostility a scenario may contain.
type Cfg struct {
	StepsLo, StepsHi int
	MaxReplicas      int
	MaxOrd           int // initial pods at ordinals 0..MaxOrd
	Faults           bool
	Restarts         bool
	SecondSet        bool
	Claims           bool
	Pause            bool
	DeleteSet        bool
	Foreign          bool // foreign / orphan pods and revisions
	Lag              bool // cache lag (otherwise caches are synced before every reconcile)
	NilRolling       bool // allow the legacy nil rollingUpdate block
	OnlyPolicy       asv1.PodManagementPolicyType
	OddNames         bool // non-canonical pod names (S-01, S-x)
	NoUserEdits      bool
	SlotHeavy        bool
	// Gentle: healthy initial population (exactly the desired pods, Ready, owned) and a co-operative
	// environment, so that rollouts and ordered scale-in actually progress; edits favour templates,
	// partitions, slots and replicas.
	Gentle bool
}

func DefaultCfg() Cfg {
	return Cfg{StepsLo: 20, StepsHi: 80, MaxReplicas: 5, MaxOrd: 9, Faults: true, Restarts: true, SecondSet: true,
		Claims: true, Pause: true, DeleteSet: true, Foreign: true, Lag: true, NilRolling: true}
}

// Runner generates and executes one scenario; every reconcile record is passed
// to OnRecord (the monitors).
type Runner struct {
	W        *World
	Rng      *rand.Rand
	Cfg      Cfg
	OnRecord func(*Record)
	Trace    []string
	Sets     []string
	// per-set history of template versions that have a revision
	Versions    map[string][]int
	maxRestarts int
	restarts    int // of this scenario (the budget must not depend on what the process ran before)
}

func NewRunner(w *World, seed int64, cfg Cfg) *Runner {
	return &Runner{W: w, Rng: rand.New(rand.NewSource(seed)), Cfg: cfg, Versions: map[string][]int{}, maxRestarts: 2}
}

func (r *Runner) logf(f string, a ...interface{}) {
	r.Trace = append(r.Trace, fmt.Sprintf(f, a...))
}

func (r *Runner) pick(l []string) string {
	if len(l) == 0 {
		return ""
	}
	return l[r.Rng.Intn(len(l))]
}

func (r *Runner) chance(p float64) bool { return r.Rng.Float64() < p }

func (r *Runner) Reconcile(set string) *Record {
	rec := r.W.Reconcile(NS + "/" + set)
	r.logRec(rec)
	if r.OnRecord != nil {
		r.OnRecord(rec)
	}
	if rec.Crash && r.restarts < r.maxRestarts+2 {
		// the process died at that call: a new one starts over the same API state
		r.restarts++
		r.W.Restart()
		r.logf("restart after the crash")
	}
	return rec
}

func (r *Runner) logRec(rec *Record) {
	s := fmt.Sprintf("reconcile #%d %s", rec.ID, rec.Key)
	for _, c := range rec.Calls {
		if c.IsWrite() {
			s += fmt.Sprintf("\n      %s", c.String())
		}
	}
	if rec.Err != nil {
		s += "\n      => error: " + rec.Err.Error()
	}
	if rec.Crash {
		s += "\n      => crashed (injected)"
	}
	if rec.Panic != nil {
		s += fmt.Sprintf("\n      => PANIC: %v", rec.Panic)
	}
	r.logf("%s", s)
}

func (r *Runner) randSlots(max int) []int32 {
	var out []int32
	if r.chance(0.35) && !r.Cfg.SlotHeavy {
		return nil
	}
	n := r.Rng.Intn(4)
	if r.Cfg.SlotHeavy {
		n = 1 + r.Rng.Intn(3)
	}
	seen := map[int32]bool{}
	for i := 0; i < n; i++ {
		v := int32(r.Rng.Intn(max))
		if !seen[v] {
			seen[v] = true
			out = append(out, v)
		}
	}
	sort.Slice(out, func(i, j int) bool { return out[i] < out[j] })
	return out
}

func (r *Runner) randSetOpts(name string) SetOpts {
	o := SetOpts{Name: name, Replicas: int32(r.Rng.Intn(r.Cfg.MaxReplicas + 1)), HistLimit: []int32{0, 1, 2, 10}[r.Rng.Intn(4)]}
	o.Slots = r.randSlots(r.Cfg.MaxOrd - 1)
	if r.chance(0.5) {
		o.Policy = asv1.ParallelPodManagement
	}
	if r.Cfg.OnlyPolicy != "" {
		o.Policy = r.Cfg.OnlyPolicy
	}
	switch x := r.Rng.Intn(10); {
	case x < 2:
		o.Strategy = asv1.OnDeleteStatefulSetStrategyType
	case x < 3 && r.Cfg.NilRolling:
		o.Strategy = asv1.RollingUpdateStatefulSetStrategyType // block absent
	default:
		o.Strategy = asv1.RollingUpdateStatefulSetStrategyType
		p := int32(0)
		if r.chance(0.5) {
			p = int32(r.Rng.Intn(int(o.Replicas) + 3))
		}
		o.Partition = &p
	}
	if r.Cfg.Claims {
		switch r.Rng.Intn(4) {
		case 1:
			o.Claims = []string{"data"}
		case 2:
			o.Claims = []string{"data", "log"}
		}
		o.ClaimLabels = r.chance(0.4)
	}
	if r.Cfg.DeleteSet && r.chance(0.5) {
		o.Finalizers = []string{"verif/hold"}
	}
	return o
}

// Setup builds the initial world.
func (r *Runner) Setup() {
	w := r.W
	names := []string{"web"}
	if r.Cfg.SecondSet && r.chance(0.3) {
		names = append(names, "db")
	}
	if r.chance(0.2) {
		names[0] = []string{"web-1", "a-0", "w"}[r.Rng.Intn(3)]
	}
	if len(names) == 2 && r.chance(0.4) {
		// nested names: pod "web-1" of set "web" next to set "web-1" with pods "web-1-<n>", same selector
		names[1] = names[0] + "-1"
	}
	r.Sets = names
	for _, name := range names {
		o := r.randSetOpts(name)
		final := o
		// prologue: let the real controller record 1..3 template versions
		k := 1 + r.Rng.Intn(3)
		var vs []int
		for len(vs) < k {
			v := r.Rng.Intn(4)
			if len(vs) == 0 || vs[len(vs)-1] != v {
				vs = append(vs, v)
			}
		}
		o.Replicas, o.Slots, o.Paused = 0, nil, false
		o.TemplateV = vs[0]
		set := NewSet(o)
		w.Srv.Seed(simapi.Sets, set)
		w.Relist(simapi.Sets)
		r.logf("setup set %s policy=%s strategy=%s partition=%v claims=%v limit=%d finalizers=%v versions=%v", name, final.Policy, final.Strategy,
			ptrStr(final.Partition), final.Claims, final.HistLimit, final.Finalizers, vs)
		for i, v := range vs {
			if i > 0 {
				w.EditSet(name, func(s *asv1.StatefulSet) { s.Spec.Template = Template(s.Spec.Selector.MatchLabels, v) })
				w.DeliverAll()
			}
			r.Reconcile(name)
			w.DeliverAll()
		}
		r.Versions[name] = vs
		// final spec
		w.EditSet(name, func(s *asv1.StatefulSet) {
			s.Spec.Replicas = I32(final.Replicas)
			SetSlots(s, final.Slots)
		})
		r.logf("   final replicas=%d slots=%v", final.Replicas, final.Slots)
		// possibly point status.currentRevision at an older revision (rollout in flight)
		revs := r.revNames(name)
		if len(revs) > 1 && r.chance(0.5) {
			cur := revs[r.Rng.Intn(len(revs))]
			w.Srv.Mutate(simapi.Sets, NS, name, func(o runtime.Object) { o.(*asv1.StatefulSet).Status.CurrentRevision = cur })
			r.logf("   status.currentRevision := %s", cur)
		}
		r.seedPods(name, final)
		if r.Cfg.Foreign {
			r.seedStrayRevisions(name)
		}
	}
	for _, res := range cachedRes {
		w.Relist(res)
	}
}

func ptrStr(p *int32) string {
	if p == nil {
		return "nil"
	}
	return fmt.Sprint(*p)
}

type revInfo struct {
	Name string
	V    int
}

func (r *Runner) revisionsOf(set string) []revInfo {
	var out []revInfo
	s := r.W.GetSet(set)
	if s == nil {
		return nil
	}
	for _, rev := range RevisionsOf(r.W.Srv.Snap(), NS) {
		if c := ControllerOf(rev); c != nil && c.UID == s.UID {
			out = append(out, revInfo{rev.Name, RevisionTemplateV(rev)})
		}
	}
	return out
}

func (r *Runner) revNames(set string) []string {
	var out []string
	for _, ri := range r.revisionsOf(set) {
		out = append(out, ri.Name)
	}
	return out
}

func (r *Runner) seedPods(set string, o SetOpts) {
	w := r.W
	s := w.GetSet(set)
	revs := r.revisionsOf(set)
	labels := s.Spec.Selector.MatchLabels
	density := 0.25 + 0.6*r.Rng.Float64()
	desired := refspec.DesiredSet(int(*s.Spec.Replicas), SlotsOf(s))
	for ord := 0; ord <= r.Cfg.MaxOrd; ord++ {
		if r.Cfg.Gentle {
			if !desired[ord] && !r.chance(0.15) {
				continue
			}
			po := PodOpts{Name: fmt.Sprintf("%s-%d", set, ord), Labels: labels, SetName: set, Ordinal: ord, Claims: o.Claims, Phase: corev1.PodRunning, Scheduled: true, Ready: true, Owner: SetOwnerRef(s)}
			po.PodNameLbl = po.Name
			if len(revs) > 0 {
				ri := revs[r.Rng.Intn(len(revs))]
				if r.chance(0.6) {
					ri = revs[len(revs)-1]
				}
				po.Revision, po.TemplateV = ri.Name, ri.V
			}
			w.Srv.Seed(simapi.Pods, NewPod(po))
			r.logf("   pod %s healthy rev=%s", po.Name, po.Revision)
			for _, c := range po.Claims {
				w.Srv.Seed(simapi.PVCs, &corev1.PersistentVolumeClaim{ObjectMeta: metav1.ObjectMeta{Namespace: NS, Name: fmt.Sprintf("%s-%s-%d", c, set, ord)}})
			}
			continue
		}
		if !r.chance(density) {
			continue
		}
		po := PodOpts{Name: fmt.Sprintf("%s-%d", set, ord), Labels: labels, SetName: set, Ordinal: ord, Claims: o.Claims}
		po.PodNameLbl = po.Name
		// phase
		switch x := r.Rng.Intn(20); {
		case x < 1:
			po.Phase = corev1.PodPending
		case x < 3:
			po.Phase, po.Scheduled = corev1.PodPending, true
		case x < 5:
			po.Phase, po.Scheduled = corev1.PodRunning, true
		case x < 17:
			po.Phase, po.Scheduled, po.Ready = corev1.PodRunning, true, true
		case x < 19:
			po.Phase, po.Scheduled = corev1.PodFailed, true
		default:
			po.Phase, po.Scheduled = corev1.PodSucceeded, true
		}
		if po.Scheduled && r.chance(0.1) {
			po.Terminating = true
		}
		// revision
		if len(revs) > 0 && !r.chance(0.08) {
			ri := revs[r.Rng.Intn(len(revs))]
			po.Revision, po.TemplateV = ri.Name, ri.V
		} else if r.chance(0.5) {
			po.Revision = set + "-dangling"
		}
		// owner
		po.Owner = SetOwnerRef(s)
		if r.Cfg.Foreign {
			switch x := r.Rng.Intn(20); {
			case x < 2:
				po.Owner = nil
			case x < 3:
				po.Owner = OwnerRef(SetKind.GroupVersion().String(), "StatefulSet", set, types.UID("old-"+string(s.UID)))
			case x < 4:
				po.Owner = OwnerRef("apps/v1", "ReplicaSet", "rs", "rs-uid")
			}
			if r.chance(0.06) {
				po.Labels = map[string]string{"app": "other"}
			}
			if r.chance(0.07) {
				po.PodNameLbl = ""
			}
			if len(o.Claims) > 0 && r.chance(0.07) {
				po.Claims = nil
			}
		}
		if r.Cfg.OddNames && r.chance(0.1) {
			po.Name = fmt.Sprintf("%s-0%d", set, ord)
		}
		p := NewPod(po)
		w.Srv.Seed(simapi.Pods, p)
		r.logf("   pod %s phase=%s sched=%v ready=%v term=%v rev=%s owner=%s labels=%v", po.Name, po.Phase, po.Scheduled, po.Ready, po.Terminating, po.Revision, ownerStr(po.Owner), p.Labels)
		// claims of healthy pods usually exist
		if r.chance(0.8) {
			for _, c := range po.Claims {
				w.Srv.Seed(simapi.PVCs, &corev1.PersistentVolumeClaim{ObjectMeta: metav1.ObjectMeta{Namespace: NS,
					Name: fmt.Sprintf("%s-%s-%d", c, set, ord), Labels: map[string]string{"seeded": "true"}}})
			}
		}
	}
	// a member at the very top of the ordinal range
	if r.Cfg.Foreign && r.chance(0.04) {
		ord := []int{2147483647, 2147483646, 100000}[r.Rng.Intn(3)]
		po := PodOpts{Name: fmt.Sprintf("%s-%d", set, ord), Labels: labels, SetName: set, Ordinal: ord, Claims: o.Claims, Scheduled: true, Owner: SetOwnerRef(s)}
		po.PodNameLbl = po.Name
		po.Phase = []corev1.PodPhase{corev1.PodPending, corev1.PodRunning, corev1.PodFailed}[r.Rng.Intn(3)]
		po.Ready = po.Phase == corev1.PodRunning && r.chance(0.5)
		if len(revs) > 0 {
			po.Revision, po.TemplateV = revs[0].Name, revs[0].V
		}
		w.Srv.Seed(simapi.Pods, NewPod(po))
		r.logf("   pod %s phase=%s ready=%v (top of the ordinal range)", po.Name, po.Phase, po.Ready)
	}
	// strangers: unowned pods with the set's labels whose names only look like the set's pod names
	if r.Cfg.Foreign && r.chance(0.15) {
		for k := 0; k < 1+r.Rng.Intn(2); k++ {
			r.seedStranger(set, s)
		}
	}
	// claims of absent ordinals: left behind by an earlier scale-in, some of them being deleted
	// (held by the pvc-protection finalizer)
	for ord := 0; ord <= r.Cfg.MaxOrd && len(o.Claims) > 0; ord++ {
		if w.GetPod(fmt.Sprintf("%s-%d", set, ord)) != nil || !r.chance(0.25) {
			continue
		}
		pvc := &corev1.PersistentVolumeClaim{ObjectMeta: metav1.ObjectMeta{Namespace: NS, Name: fmt.Sprintf("%s-%s-%d", o.Claims[0], set, ord)}}
		if r.chance(0.5) {
			t := fixedTime
			pvc.DeletionTimestamp = &t
			pvc.Finalizers = []string{"kubernetes.io/pvc-protection"}
			r.logf("   claim %s is terminating", pvc.Name)
		}
		w.Srv.Seed(simapi.PVCs, pvc)
	}
}

func ownerStr(o *metav1.OwnerReference) string {
	if o == nil {
		return "none"
	}
	return o.Kind + "/" + o.Name + "/" + string(o.UID)
}

// RevisionTemplateV decodes the template version recorded in a revision (-1 if not decodable).
func RevisionTemplateV(rev *appsv1.ControllerRevision) int {
	t := DecodeRevisionTemplate(rev)
	if t == nil {
		return -1
	}
	return TemplateVersion(t)
}

func (r *Runner) seedStrayRevisions(set string) {
	w := r.W
	s := w.GetSet(set)
	own := RevisionsOf(w.Srv.Snap(), NS)
	if len(own) == 0 {
		return
	}
	mk := func(name string, base *appsv1.ControllerRevision, owner *metav1.OwnerReference, labels map[string]string, revno int64) {
		c := base.DeepCopy()
		c.ObjectMeta = metav1.ObjectMeta{Name: name, Namespace: NS, Labels: labels}
		if owner != nil {
			c.OwnerReferences = []metav1.OwnerReference{*owner}
		}
		c.Revision = revno
		w.Srv.Seed(simapi.Revisions, c)
		r.logf("   stray revision %s owner=%s labels=%v rev=%d", name, ownerStr(owner), labels, revno)
	}
	base := own[r.Rng.Intn(len(own))]
	match := map[string]string{}
	for k, v := range s.Spec.Selector.MatchLabels {
		match[k] = v
	}
	if r.chance(0.15) { // orphan that matches the selector (left behind by an orphaning delete)
		mk(set+"-orphanrev", base, nil, match, int64(r.Rng.Intn(5)))
	}
	if r.chance(0.15) { // owned by a foreign controller but matching
		mk(set+"-foreignrev", base, OwnerRef(SetKind.GroupVersion().String(), "StatefulSet", set, types.UID("old-"+string(s.UID))), match, int64(r.Rng.Intn(5)))
	}
	if r.chance(0.15) { // migration leftovers: marker label, no selector labels, orphan
		mk(set+"-markerrev", base, nil, map[string]string{helper.UpgradeToAdvancedStatefulSetAnn: set}, int64(r.Rng.Intn(5)))
	}
	if r.chance(0.15) { // mid-upgrade: already marked but still controlled by the built-in set
		mk(set+"-markedforeignrev", base, OwnerRef("apps/v1", "StatefulSet", set, types.UID("builtin-"+string(s.UID))), map[string]string{helper.UpgradeToAdvancedStatefulSetAnn: set}, int64(r.Rng.Intn(5)))
	}
	if r.chance(0.1) { // adopted after an upgrade: marker + selector labels, owned by the set
		l := map[string]string{helper.UpgradeToAdvancedStatefulSetAnn: set}
		for k, v := range match {
			l[k] = v
		}
		mk(set+"-adoptedrev", base, SetOwnerRef(s), l, int64(r.Rng.Intn(5)))
	}
}

// Step performs one random hostile step.
func (r *Runner) gentleStep() {
	w := r.W
	switch x := r.Rng.Intn(100); {
	case x < 40:
		r.Reconcile(r.pick(r.Sets))
	case x < 60:
		w.DeliverAll()
		r.logf("deliver all")
	case x < 85:
		for _, p := range w.PodNames() {
			if r.chance(0.8) {
				w.Kubelet(p, "settle")
			}
		}
		r.logf("kubelet settles pods")
	case x < 88:
		if p := r.pick(w.PodNames()); p != "" {
			tr := []string{"unready", "fail"}[r.Rng.Intn(2)]
			if w.Kubelet(p, tr) {
				r.logf("kubelet %s %s", p, tr)
			}
		}
	default:
		r.userEdit()
	}
}

func (r *Runner) Step() {
	if r.Cfg.Gentle {
		r.gentleStep()
		return
	}
	w := r.W
	x := r.Rng.Intn(100)
	switch {
	case x < 35:
		set := r.pick(r.Sets)
		if !r.Cfg.Lag {
			w.DeliverAll()
		}
		if r.chance(0.3) {
			w.CatchUp = true
			w.CatchUpOneByOne = r.chance(0.5)
		}
		r.Reconcile(set)
		w.CatchUp, w.CatchUpOneByOne = false, false
	case x < 55:
		res := cachedRes[r.Rng.Intn(3)]
		n := w.Pending(res)
		if n == 0 {
			w.DeliverAll()
			r.logf("deliver all")
			return
		}
		k := 1 + r.Rng.Intn(n)
		if r.chance(0.5) {
			k = n
		}
		w.Deliver(res, k)
		r.logf("deliver %s %d/%d", res, k, n)
	case x < 75:
		p := r.pick(w.PodNames())
		if p == "" {
			return
		}
		tr := KubeletTransitions[r.Rng.Intn(len(KubeletTransitions))]
		if w.Kubelet(p, tr) {
			r.logf("kubelet %s %s", p, tr)
		}
	case x < 85:
		if !r.Cfg.NoUserEdits {
			r.userEdit()
		}
	case x < 90:
		r.userPodOp()
	case x < 95:
		if r.Cfg.Faults {
			r.planFault()
		}
	case x < 97:
		res := cachedRes[r.Rng.Intn(3)]
		w.Relist(res)
		r.logf("relist %s", res)
	case x < 98:
		if r.Cfg.Restarts && r.restarts < r.maxRestarts {
			r.restarts++
			w.Restart()
			r.logf("restart")
		}
	default:
		if n := w.Srv.RunGC(); n > 0 {
			r.logf("gc touched %d", n)
		}
	}
}

func (r *Runner) planFault() {
	kinds := []string{"500", "timeout", "conflict", "notfound", "exists"}
	modes := []string{"before", "after", "crash-before", "crash-after"}
	f := &simapi.Fault{Nth: 1 + r.Rng.Intn(12), Kind: kinds[r.Rng.Intn(len(kinds))], Mode: modes[r.Rng.Intn(len(modes))]}
	if (f.Mode == "crash-before" || f.Mode == "crash-after") && r.restarts >= r.maxRestarts {
		f.Mode = "before"
	}
	r.W.Srv.ClearFaults()
	r.W.Srv.AddFault(f)
	r.W.CatchUp = r.chance(0.5)
	r.logf("fault plan: call #%d of the next reconcile: %s/%s (caches catch up mid-reconcile: %v)", f.Nth, f.Kind, f.Mode, r.W.CatchUp)
}

func (r *Runner) userEdit() {
	w := r.W
	set := r.pick(r.Sets)
	s := w.GetSet(set)
	if s == nil {
		// the user re-creates a deleted set under the same name (new UID)
		if r.Cfg.DeleteSet && r.chance(0.5) {
			o := r.randSetOpts(set)
			o.TemplateV = r.Rng.Intn(4)
			w.Srv.Seed(simapi.Sets, NewSet(o))
			r.logf("user re-creates set %s", set)
		}
		return
	}
	x := r.Rng.Intn(100)
	if r.Cfg.SlotHeavy && x >= 50 {
		x = 20 + r.Rng.Intn(20)
	}
	if r.Cfg.Gentle {
		x = r.Rng.Intn(72) // replicas, slots, template, partition, strategy
	}
	switch {
	case x < 20:
		n := int32(r.Rng.Intn(r.Cfg.MaxReplicas + 1))
		w.EditSet(set, func(s *asv1.StatefulSet) { s.Spec.Replicas = I32(n) })
		r.logf("user %s replicas=%d", set, n)
	case x < 40:
		sl := r.randSlots(r.Cfg.MaxOrd - 1)
		w.EditSet(set, func(s *asv1.StatefulSet) { SetSlots(s, sl) })
		r.logf("user %s slots=%v", set, sl)
	case x < 55:
		v := r.Rng.Intn(4)
		w.EditSet(set, func(s *asv1.StatefulSet) { s.Spec.Template = Template(s.Spec.Selector.MatchLabels, v) })
		r.logf("user %s template=v%d", set, v)
	case x < 65:
		if s.Spec.UpdateStrategy.Type == asv1.RollingUpdateStatefulSetStrategyType && s.Spec.UpdateStrategy.RollingUpdate != nil {
			p := int32(r.Rng.Intn(int(*s.Spec.Replicas) + 3))
			w.EditSet(set, func(s *asv1.StatefulSet) { s.Spec.UpdateStrategy.RollingUpdate.Partition = I32(p) })
			r.logf("user %s partition=%d", set, p)
		}
	case x < 72:
		w.EditSet(set, func(s *asv1.StatefulSet) {
			if s.Spec.UpdateStrategy.Type == asv1.OnDeleteStatefulSetStrategyType {
				s.Spec.UpdateStrategy = asv1.StatefulSetUpdateStrategy{Type: asv1.RollingUpdateStatefulSetStrategyType,
					RollingUpdate: &asv1.RollingUpdateStatefulSetStrategy{Partition: I32(0)}}
			} else {
				s.Spec.UpdateStrategy = asv1.StatefulSetUpdateStrategy{Type: asv1.OnDeleteStatefulSetStrategyType}
			}
		})
		r.logf("user %s strategy switched", set)
	case x < 78:
		l := []int32{0, 1, 2, 10}[r.Rng.Intn(4)]
		w.EditSet(set, func(s *asv1.StatefulSet) { s.Spec.RevisionHistoryLimit = I32(l) })
		r.logf("user %s historyLimit=%d", set, l)
	case x < 88:
		if r.Cfg.Pause {
			p := !helper.GetPausedReconcile(s)
			w.EditSet(set, func(s *asv1.StatefulSet) { SetPaused(s, p) })
			r.logf("user %s paused=%v", set, p)
		}
	case x < 94:
		w.EditSet(set, func(s *asv1.StatefulSet) {
			if s.Labels == nil {
				s.Labels = map[string]string{}
			}
			s.Labels["touched"] = fmt.Sprint(r.Rng.Intn(100))
		})
		r.logf("user %s touch", set)
	default:
		if r.Cfg.DeleteSet {
			w.DeleteSet(set)
			r.logf("user delete set %s", set)
		}
	}
}

// strangerName: a valid pod name that is not <set>-<ordinal> but close to it.
func (r *Runner) strangerName(set string) string {
	ord := r.Rng.Intn(r.Cfg.MaxOrd + 1)
	switch r.Rng.Intn(5) {
	case 0:
		return fmt.Sprintf("%s-%d-debug", set, ord)
	case 1:
		return fmt.Sprintf("x%s-%d", set, ord)
	case 2:
		return fmt.Sprintf("%s--%d", set, ord)
	case 3:
		return fmt.Sprintf("%s-%dx", set, ord)
	default:
		return fmt.Sprintf("%s-%d-%d.a", set, ord, ord)
	}
}

func (r *Runner) seedStranger(set string, s *asv1.StatefulSet) {
	name := r.strangerName(set)
	if r.W.GetPod(name) != nil {
		return
	}
	po := PodOpts{Name: name, Labels: s.Spec.Selector.MatchLabels, SetName: set, Ordinal: r.Rng.Intn(r.Cfg.MaxOrd + 1), Phase: corev1.PodRunning, Scheduled: true, Ready: true, PodNameLbl: name}
	if revs := r.revisionsOf(set); len(revs) > 0 {
		po.Revision, po.TemplateV = revs[0].Name, revs[0].V
	}
	r.W.Srv.Seed(simapi.Pods, NewPod(po))
	r.logf("   stranger pod %s (unowned, matching labels, not a pod name of the set)", name)
}

func (r *Runner) userPodOp() {
	w := r.W
	p := r.pick(w.PodNames())
	switch x := r.Rng.Intn(10); {
	case x < 1 && r.Cfg.Claims:
		// somebody deletes a claim whose pod is absent (left behind by an earlier scale-in)
		for _, o := range w.Srv.Snap().List(simapi.PVCs, NS) {
			c := o.(*corev1.PersistentVolumeClaim)
			i := strings.Index(c.Name, "-")
			if i > 0 && w.GetPod(c.Name[i+1:]) == nil && len(c.Finalizers) == 0 {
				w.Srv.Remove(simapi.PVCs, NS, c.Name)
				r.logf("user deletes claim %s", c.Name)
				break
			}
		}
	case x < 4 && p != "":
		w.UserDeletePod(p)
		r.logf("user delete pod %s", p)
	case x < 6 && p != "" && r.Cfg.Foreign:
		w.Srv.Mutate(simapi.Pods, NS, p, func(o runtime.Object) { o.(*corev1.Pod).Labels["app"] = "other" })
		r.logf("user relabel pod %s (stops matching)", p)
	case x < 8 && p != "" && r.Cfg.Foreign:
		w.Srv.Mutate(simapi.Pods, NS, p, func(o runtime.Object) { o.(*corev1.Pod).OwnerReferences = nil })
		r.logf("user orphan pod %s", p)
	case r.Cfg.Foreign:
		set := r.pick(r.Sets)
		s := w.GetSet(set)
		if s == nil {
			return
		}
		if r.chance(0.25) {
			r.seedStranger(set, s)
			return
		}
		ord := r.Rng.Intn(r.Cfg.MaxOrd + 1)
		name := fmt.Sprintf("%s-%d", set, ord)
		if w.GetPod(name) != nil {
			return
		}
		po := PodOpts{Name: name, Labels: s.Spec.Selector.MatchLabels, SetName: set, Ordinal: ord, Phase: corev1.PodRunning, Scheduled: true, Ready: true, PodNameLbl: name}
		if revs := r.revisionsOf(set); len(revs) > 0 {
			po.Revision, po.TemplateV = revs[0].Name, revs[0].V
		}
		w.Srv.Seed(simapi.Pods, NewPod(po))
		r.logf("user creates orphan pod %s", name)
	}
}

// Hostile runs the random phase.
func (r *Runner) Hostile() {
	n := r.Cfg.StepsLo
	if r.Cfg.StepsHi > r.Cfg.StepsLo {
		n += r.Rng.Intn(r.Cfg.StepsHi - r.Cfg.StepsLo)
	}
	for i := 0; i < n; i++ {
		r.Step()
	}
	r.W.Srv.ClearFaults()
}
