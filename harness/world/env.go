package world

import (
	"encoding/json"
	"fmt"

	asv1 "github.com/pingcap/advanced-statefulset/client/apis/apps/v1"
	"github.com/pingcap/advanced-statefulset/client/apis/apps/v1/helper"
	corev1 "k8s.io/api/core/v1"
	"k8s.io/apimachinery/pkg/runtime"

	"verif/harness/simapi"
)

// ---------------------------------------------------------------------------
// kubelet actor

// Kubelet applies one transition to a pod in the API. Returns false when the
// transition does not apply to the pod's current state.
func (w *World) Kubelet(name, tr string) bool {
	o := w.Srv.Get(simapi.Pods, NS, name)
	if o == nil {
		return false
	}
	p := o.(*corev1.Pod)
	terminal := p.Status.Phase == corev1.PodFailed || p.Status.Phase == corev1.PodSucceeded
	mut := func(fn func(p *corev1.Pod)) bool {
		w.Srv.Mutate(simapi.Pods, NS, name, func(o runtime.Object) { fn(o.(*corev1.Pod)) })
		return true
	}
	switch tr {
	case "schedule":
		if p.Spec.NodeName != "" || terminal {
			return false
		}
		return mut(func(p *corev1.Pod) { p.Spec.NodeName = "node" })
	case "run":
		if p.Spec.NodeName == "" || terminal || p.Status.Phase == corev1.PodRunning {
			return false
		}
		return mut(func(p *corev1.Pod) { p.Status.Phase = corev1.PodRunning })
	case "ready":
		if p.Status.Phase != corev1.PodRunning || IsReady(p) {
			return false
		}
		return mut(func(p *corev1.Pod) { p.Status.Conditions = PodConditions(corev1.ConditionTrue) })
	case "unready":
		if !IsReady(p) {
			return false
		}
		// the three ways a Running pod is not Ready: no Ready condition at all, Ready=False (probe failing),
		// Ready=Unknown (node lost); taken in turn (a per-scenario counter, so replays and twins agree)
		w.unreadyN++
		k := w.unreadyN
		return mut(func(p *corev1.Pod) {
			switch k % 3 {
			case 0:
				p.Status.Conditions = nil
			case 1:
				p.Status.Conditions = PodConditions(corev1.ConditionFalse)
			default:
				p.Status.Conditions = PodConditions(corev1.ConditionUnknown)
			}
		})
	case "fail", "succeed":
		if terminal || p.Spec.NodeName == "" {
			return false
		}
		ph := corev1.PodFailed
		if tr == "succeed" {
			ph = corev1.PodSucceeded
		}
		return mut(func(p *corev1.Pod) { p.Status.Phase = ph; p.Status.Conditions = nil })
	case "restart": // a terminal pod's containers are restarted in place (only used by the calm phase premise)
		if !terminal {
			return false
		}
		return mut(func(p *corev1.Pod) { p.Status.Phase = corev1.PodRunning; p.Status.Conditions = nil })
	case "finalize":
		if p.DeletionTimestamp == nil || len(p.Finalizers) > 0 {
			return false
		}
		return w.Srv.Remove(simapi.Pods, NS, name)
	case "progress":
		switch {
		case p.DeletionTimestamp != nil:
			return w.Kubelet(name, "finalize")
		case terminal:
			return false
		case p.Spec.NodeName == "":
			return w.Kubelet(name, "schedule")
		case p.Status.Phase != corev1.PodRunning:
			return w.Kubelet(name, "run")
		case !IsReady(p):
			return w.Kubelet(name, "ready")
		}
		return false
	case "settle": // all the way: terminating pods vanish, others become Running+Ready
		any := false
		for i := 0; i < 4 && w.Kubelet(name, "progress"); i++ {
			any = true
		}
		return any
	}
	return false
}

var KubeletTransitions = []string{"schedule", "run", "ready", "unready", "fail", "succeed", "finalize", "progress", "progress", "settle"}

// ---------------------------------------------------------------------------
// user actor

func (w *World) EditSet(name string, fn func(s *asv1.StatefulSet)) bool {
	return w.Srv.Mutate(simapi.Sets, NS, name, func(o runtime.Object) { fn(o.(*asv1.StatefulSet)) }) != nil
}

func SetSlots(s *asv1.StatefulSet, slots []int32) {
	if len(slots) == 0 {
		delete(s.Annotations, helper.DeleteSlotsAnn)
		return
	}
	if s.Annotations == nil {
		s.Annotations = map[string]string{}
	}
	b, _ := json.Marshal(slots)
	s.Annotations[helper.DeleteSlotsAnn] = string(b)
}

func SetPaused(s *asv1.StatefulSet, paused bool) {
	if s.Annotations == nil {
		s.Annotations = map[string]string{}
	}
	if paused {
		s.Annotations[helper.PausedReconcileAnn] = "true"
	} else {
		delete(s.Annotations, helper.PausedReconcileAnn)
	}
}

// DeleteSet is a user delete: with finalizers the set only gets a deletion
// timestamp; otherwise it disappears and its dependents await the GC.
func (w *World) DeleteSet(name string) {
	o := w.Srv.Get(simapi.Sets, NS, name)
	if o == nil {
		return
	}
	if len(o.(*asv1.StatefulSet).Finalizers) > 0 {
		w.Srv.MarkDeleting(simapi.Sets, NS, name)
	} else {
		w.Srv.Remove(simapi.Sets, NS, name)
	}
}

// UserDeletePod is a graceful user delete of a pod.
func (w *World) UserDeletePod(name string) {
	w.Srv.Direct("user", "delete", simapi.Pods, "", nil, NS, name, nil)
}

func (w *World) PodNames() []string {
	var out []string
	for _, p := range PodsOf(w.Srv.Snap(), NS) {
		out = append(out, p.Name)
	}
	return out
}

func (w *World) SetNames() []string {
	var out []string
	for _, s := range SetsOf(w.Srv.Snap()) {
		out = append(out, s.Name)
	}
	return out
}

func (w *World) GetSet(name string) *asv1.StatefulSet {
	o := w.Srv.Get(simapi.Sets, NS, name)
	if o == nil {
		return nil
	}
	return o.(*asv1.StatefulSet)
}

func (w *World) GetPod(name string) *corev1.Pod {
	o := w.Srv.Get(simapi.Pods, NS, name)
	if o == nil {
		return nil
	}
	return o.(*corev1.Pod)
}

func fmtSlots(l []int32) string { return fmt.Sprint(l) }
