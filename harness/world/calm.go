package world

import (
	"fmt"

	asv1 "github.com/pingcap/advanced-statefulset/client/apis/apps/v1"
	"github.com/pingcap/advanced-statefulset/client/apis/apps/v1/helper"
	appsv1 "k8s.io/api/apps/v1"
	corev1 "k8s.io/api/core/v1"
	metav1 "k8s.io/apimachinery/pkg/apis/meta/v1"
	"k8s.io/apimachinery/pkg/labels"

	"verif/harness/refspec"
	"verif/harness/simapi"
)

// CalmStart establishes the premise of the convergence property: the user stops
// editing (a raised pause flag is lowered), faults stop, pods that squat a name
// of the set without being claimable by it are removed by their owners, and
// under OrderedReady a Failed/Succeeded pod outside the desired set is restarted
// (the property exempts it). Returns a description of what was done.
func (r *Runner) CalmStart() {
	w := r.W
	w.Srv.ClearFaults()
	for _, name := range r.Sets {
		s := w.GetSet(name)
		if s == nil {
			continue
		}
		if helper.GetPausedReconcile(s) {
			w.EditSet(name, func(s *asv1.StatefulSet) { SetPaused(s, false) })
			r.logf("calm: %s un-paused", name)
		}
	}
	w.Srv.RunGC()
	r.CalmPremise()
}

// calmPremise removes name squatters and restarts exempted terminal pods (see CalmStart).
func (r *Runner) CalmPremise() {
	w := r.W
	for _, name := range r.Sets {
		s := w.GetSet(name)
		if s == nil || s.DeletionTimestamp != nil {
			continue
		}
		sel, err := metav1.LabelSelectorAsSelector(s.Spec.Selector)
		if err != nil {
			continue
		}
		desired := refspec.DesiredSet(int(*s.Spec.Replicas), SlotsOf(s))
		for _, p := range PodsOf(w.Srv.Snap(), NS) {
			parent, ord, ok := refspec.ParsePodName(p.Name)
			if parent != name {
				continue
			}
			c := ControllerOf(p)
			claimable := (c != nil && c.UID == s.UID && sel.Matches(labels.Set(p.Labels))) ||
				(c == nil && sel.Matches(labels.Set(p.Labels)) && p.DeletionTimestamp == nil)
			if !claimable && !(c == nil && p.DeletionTimestamp != nil) {
				w.Srv.Remove(simapi.Pods, NS, p.Name)
				r.logf("calm: squatter %s removed by its owner", p.Name)
				continue
			}
			if !ok {
				continue
			}
			terminal := p.Status.Phase == corev1.PodFailed || p.Status.Phase == corev1.PodSucceeded
			if terminal && !desired[ord] && s.Spec.PodManagementPolicy != asv1.ParallelPodManagement {
				w.Kubelet(p.Name, "restart")
				r.logf("calm: terminal pod %s outside the desired set restarted (exempted by the premise)", p.Name)
			}
		}
	}
}

// CalmRound: caches catch up, every pod makes full kubelet progress, one reconcile per set.
func (r *Runner) CalmRound() []*Record {
	w := r.W
	w.Srv.RunGC()
	if n := w.Srv.SweepDangling(); n > 0 {
		r.logf("calm: garbage collector removed %d dependents of absent owners", n)
	}
	r.CalmPremise()
	for _, n := range w.PodNames() {
		w.Kubelet(n, "settle")
	}
	w.DeliverAll()
	var recs []*Record
	for _, name := range r.Sets {
		recs = append(recs, r.Reconcile(name))
		w.DeliverAll()
	}
	return recs
}

// Converged checks the target state of the convergence property for one set
// against the API state. It returns "" when the target holds, else the reason.
func Converged(snap simapi.Snapshot, s *asv1.StatefulSet) string {
	sel, err := metav1.LabelSelectorAsSelector(s.Spec.Selector)
	if err != nil {
		return ""
	}
	replicas := int(*s.Spec.Replicas)
	desired := refspec.DesiredSet(replicas, SlotsOf(s))
	have := map[int]*corev1.Pod{}
	for _, p := range PodsOf(snap, s.Namespace) {
		c := ControllerOf(p)
		if c == nil || c.UID != s.UID {
			parent, _, _ := refspec.ParsePodName(p.Name)
			if parent == s.Name && c == nil && sel.Matches(labels.Set(p.Labels)) && p.DeletionTimestamp == nil {
				return fmt.Sprintf("matching orphan %s not adopted", p.Name)
			}
			continue
		}
		_, ord, ok := refspec.ParsePodName(p.Name)
		if !ok {
			continue
		}
		have[ord] = p
	}
	for ord, p := range have {
		if !desired[ord] {
			return fmt.Sprintf("pod %s outside the desired set %v still present", p.Name, refspec.SortedInts(desired))
		}
	}
	upd := s.Status.UpdateRevision
	rolling := s.Spec.UpdateStrategy.Type == asv1.RollingUpdateStatefulSetStrategyType
	part := 0
	if ru := s.Spec.UpdateStrategy.RollingUpdate; ru != nil && ru.Partition != nil && *ru.Partition > 0 {
		part = int(*ru.Partition)
	}
	for _, ord := range refspec.SortedInts(desired) {
		p := have[ord]
		if p == nil {
			return fmt.Sprintf("desired ordinal %d has no pod", ord)
		}
		if !IsHealthy(p) {
			return fmt.Sprintf("pod %s not Running+Ready (phase %s terminating %v)", p.Name, p.Status.Phase, p.DeletionTimestamp != nil)
		}
		if rolling && ord >= part && p.Labels[appsv1.StatefulSetRevisionLabel] != upd {
			return fmt.Sprintf("pod %s at revision %q, update revision is %q (partition %d)", p.Name, p.Labels[appsv1.StatefulSetRevisionLabel], upd, part)
		}
	}
	if int(s.Status.Replicas) != replicas || int(s.Status.ReadyReplicas) != replicas {
		return fmt.Sprintf("status.replicas=%d readyReplicas=%d, spec.replicas=%d", s.Status.Replicas, s.Status.ReadyReplicas, replicas)
	}
	return ""
}

// Census compares the status counters with a census of the set's live pods.
func Census(snap simapi.Snapshot, s *asv1.StatefulSet) string {
	var total, ready, cur, upd int32
	for _, p := range PodsOf(snap, s.Namespace) {
		c := ControllerOf(p)
		if c == nil || c.UID != s.UID {
			continue
		}
		total++
		if IsReady(p) {
			ready++
		}
		if p.DeletionTimestamp == nil {
			if p.Labels[appsv1.StatefulSetRevisionLabel] == s.Status.CurrentRevision {
				cur++
			}
			if p.Labels[appsv1.StatefulSetRevisionLabel] == s.Status.UpdateRevision {
				upd++
			}
		}
	}
	st := s.Status
	if st.Replicas != total || st.ReadyReplicas != ready || st.CurrentReplicas != cur || st.UpdatedReplicas != upd {
		return fmt.Sprintf("status replicas/ready/current/updated = %d/%d/%d/%d but the census of live pods is %d/%d/%d/%d (currentRevision=%s updateRevision=%s)",
			st.Replicas, st.ReadyReplicas, st.CurrentReplicas, st.UpdatedReplicas, total, ready, cur, upd, st.CurrentRevision, st.UpdateRevision)
	}
	return ""
}

// CalmResult reports the calm phase.
type CalmResult struct {
	Rounds      int
	Budget      int
	NotConv     map[string]string // set -> reason (after the budget)
	LateWrites  []string          // writes issued after convergence
	CensusDiffs []string
	Converged   bool
	// QuietButNotConverged: the budget ran out, yet the last round issued no write and caches were in sync
	QuietButNotConverged bool
}

// LiveSets returns the sets the convergence target applies to (existing, not being deleted).
func (r *Runner) LiveSets() []*asv1.StatefulSet {
	var out []*asv1.StatefulSet
	for _, name := range r.Sets {
		if s := r.W.GetSet(name); s != nil && s.DeletionTimestamp == nil {
			out = append(out, s)
		}
	}
	return out
}

// Calm runs the calm phase: rounds until every live set is converged (bounded by
// 10*(pods+replicas)+30 rounds), then quiet more reconciles that must not write.
func (r *Runner) Calm(quiet int) *CalmResult {
	r.CalmStart()
	w := r.W
	res := &CalmResult{NotConv: map[string]string{}}
	budget := 30
	budget += 10 * len(w.PodNames())
	for _, s := range r.LiveSets() {
		budget += 10 * int(*s.Spec.Replicas)
	}
	res.Budget = budget
	// fixed point = the target holds, caches are in sync, and a whole round issued no write
	// (the reconcile that completes a rollout is legitimately followed by one that trims history)
	for res.Rounds = 0; res.Rounds < budget; res.Rounds++ {
		recs := r.CalmRound()
		writes := 0
		for _, rec := range recs {
			if s := w.GetSet(rec.Key[len(NS)+1:]); s == nil || s.DeletionTimestamp != nil {
				continue
			}
			writes += len(rec.Writes())
			if rec.Err != nil {
				writes++
			}
		}
		all := true
		snap := w.Srv.Snap()
		for _, s := range r.LiveSets() {
			if Converged(snap, s) != "" {
				all = false
			}
		}
		if all && writes == 0 && w.PendingTotal() == 0 {
			res.Converged = true
			break
		}
		res.QuietButNotConverged = !all && writes == 0 && w.PendingTotal() == 0
	}
	snap := w.Srv.Snap()
	for _, s := range r.LiveSets() {
		if why := Converged(snap, s); why != "" {
			res.NotConv[s.Name] = why
		}
	}
	if !res.Converged {
		if res.QuietButNotConverged {
			for _, s := range r.LiveSets() {
				if d := Census(snap, s); d != "" {
					res.CensusDiffs = append(res.CensusDiffs, s.Name+": "+d)
				}
			}
		}
		return res
	}
	r.logf("calm: converged after %d rounds; %d quiet reconciles follow", res.Rounds, quiet)
	for i := 0; i < quiet; i++ {
		for _, rec := range r.CalmRound() {
			if s := w.GetSet(rec.Key[len(NS)+1:]); s == nil || s.DeletionTimestamp != nil {
				continue
			}
			for _, c := range rec.Writes() {
				res.LateWrites = append(res.LateWrites, c.String())
			}
		}
	}
	snap = w.Srv.Snap()
	for _, s := range r.LiveSets() {
		if d := Census(snap, s); d != "" {
			res.CensusDiffs = append(res.CensusDiffs, s.Name+": "+d)
		}
	}
	return res
}

// EventLoop drives the controller the way a running process is driven: pending watch events are
// delivered in order to the caches and to the controller's own handlers, which fill the virtual-time
// queue; one worker step at a time; back-off waits are skipped in virtual time; the kubelet is
// co-operative. It stops at quiescence (queue empty, nothing waiting, no pending event, kubelet idle)
// or after maxSteps worker steps.
func (r *Runner) EventLoop(maxSteps int) (quiescent bool, steps int) {
	w := r.W
	for steps = 0; steps < maxSteps; {
		w.Srv.RunGC()
		w.Srv.SweepDangling()
		acted := false
		for _, n := range w.PodNames() {
			if w.Kubelet(n, "settle") {
				acted = true
			}
		}
		w.DeliverAll()
		if w.Q.Len() == 0 {
			if at, ok := w.Q.NextReady(); ok {
				w.Q.Advance(at)
				continue
			}
			if w.PendingTotal() == 0 && !acted {
				return true, steps
			}
			continue
		}
		rec := w.WorkerStep()
		steps++
		r.logRec(rec)
		if r.OnRecord != nil {
			r.OnRecord(rec)
		}
	}
	return false, steps
}
