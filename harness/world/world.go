// Package world wires the real controller onto simapi and drives it step by step.
package world

import (
	"flag"
	"fmt"
	"io"
	"os"
	"reflect"
	"runtime/debug"
	"sort"
	"sync"
	"sync/atomic"
	"time"

	asv1 "github.com/pingcap/advanced-statefulset/client/apis/apps/v1"
	pcinformers "github.com/pingcap/advanced-statefulset/client/client/informers/externalversions"
	pcappsinformers "github.com/pingcap/advanced-statefulset/client/client/informers/externalversions/apps/v1"
	pclisters "github.com/pingcap/advanced-statefulset/client/client/listers/apps/v1"
	"github.com/pingcap/advanced-statefulset/pkg/controller/statefulset"
	corev1 "k8s.io/api/core/v1"
	"k8s.io/apimachinery/pkg/api/meta"
	"k8s.io/apimachinery/pkg/runtime"
	"k8s.io/client-go/informers"
	kubeappsinformers "k8s.io/client-go/informers/apps/v1"
	coreinformers "k8s.io/client-go/informers/core/v1"
	appslisters "k8s.io/client-go/listers/apps/v1"
	corelisters "k8s.io/client-go/listers/core/v1"
	"k8s.io/client-go/tools/cache"
	"k8s.io/client-go/util/retry"
	"k8s.io/client-go/util/workqueue"
	"k8s.io/klog/v2"

	"verif/harness/simapi"
)

func init() {
	fs := flag.NewFlagSet("klog", flag.ContinueOnError)
	klog.InitFlags(fs)
	fs.Set("logtostderr", "false")
	fs.Set("alsologtostderr", "false")
	fs.Set("stderrthreshold", "FATAL")
	klog.SetOutput(io.Discard)
	// client-go's conflict-retry helpers sleep in real time between attempts; the
	// number of attempts is what matters to the properties, so the pauses are
	// shrunk (these are client-go package variables, not repository code).
	retry.DefaultBackoff.Duration = 20 * time.Microsecond
	retry.DefaultRetry.Duration = 20 * time.Microsecond
}

// capInformer wraps a real shared informer and remembers the handlers the
// controller registers, so the stepping engine can deliver events to exactly
// the code the controller installed.
type capInformer struct {
	cache.SharedIndexInformer
	mu       sync.Mutex
	handlers []cache.ResourceEventHandler
	lists    int64 // list calls served through the listers (see orderedIndexer)
}

func (c *capInformer) AddEventHandler(h cache.ResourceEventHandler) (cache.ResourceEventHandlerRegistration, error) {
	c.mu.Lock()
	c.handlers = append(c.handlers, h)
	c.mu.Unlock()
	return c.SharedIndexInformer.AddEventHandler(h)
}

// orderedIndexer makes the order in which the listers hand out cached objects a reproducible schedule
// decision instead of Go's map iteration order: results are sorted by key and rotated by the number of
// list calls made so far in the scenario (the controller must not depend on the order; twins and replays
// of a scenario see the same one).
type orderedIndexer struct {
	cache.Indexer
	n *int64
}

func (o orderedIndexer) order(l []interface{}) []interface{} {
	sort.SliceStable(l, func(i, j int) bool {
		a, _ := cache.MetaNamespaceKeyFunc(l[i])
		b, _ := cache.MetaNamespaceKeyFunc(l[j])
		return a < b
	})
	if len(l) > 1 {
		k := int(atomic.AddInt64(o.n, 1) % int64(len(l)))
		l = append(append([]interface{}{}, l[k:]...), l[:k]...)
	}
	return l
}
func (o orderedIndexer) List() []interface{} { return o.order(o.Indexer.List()) }
func (o orderedIndexer) ByIndex(name, key string) ([]interface{}, error) {
	l, err := o.Indexer.ByIndex(name, key)
	return o.order(l), err
}
func (o orderedIndexer) Index(name string, obj interface{}) ([]interface{}, error) {
	l, err := o.Indexer.Index(name, obj)
	return o.order(l), err
}

func (c *capInformer) ordered() cache.Indexer { return orderedIndexer{c.GetIndexer(), &c.lists} }

type podInf struct{ c *capInformer }

func (p podInf) Informer() cache.SharedIndexInformer { return p.c }
func (p podInf) Lister() corelisters.PodLister       { return corelisters.NewPodLister(p.c.ordered()) }

type pvcInf struct{ c *capInformer }

func (p pvcInf) Informer() cache.SharedIndexInformer { return p.c }
func (p pvcInf) Lister() corelisters.PersistentVolumeClaimLister {
	return corelisters.NewPersistentVolumeClaimLister(p.c.ordered())
}

type revInf struct{ c *capInformer }

func (p revInf) Informer() cache.SharedIndexInformer { return p.c }
func (p revInf) Lister() appslisters.ControllerRevisionLister {
	return appslisters.NewControllerRevisionLister(p.c.ordered())
}

type setInf struct{ c *capInformer }

func (p setInf) Informer() cache.SharedIndexInformer { return p.c }
func (p setInf) Lister() pclisters.StatefulSetLister {
	return pclisters.NewStatefulSetLister(p.c.ordered())
}

var (
	_ coreinformers.PodInformer                    = podInf{}
	_ coreinformers.PersistentVolumeClaimInformer  = pvcInf{}
	_ kubeappsinformers.ControllerRevisionInformer = revInf{}
	_ pcappsinformers.StatefulSetInformer          = setInf{}
)

type pendingEv struct {
	before, after runtime.Object
	rec           int // reconcile that caused it (0: an environment actor)
}

// World is one controller instance over one simapi server.
type World struct {
	Srv  *simapi.Server
	Ctl  *statefulset.StatefulSetController
	Q    *VQueue
	inf  map[simapi.Res]*capInformer
	Kube informers.SharedInformerFactory
	PCF  pcinformers.SharedInformerFactory

	pmu     sync.Mutex
	pending map[simapi.Res][]pendingEv

	recN     int
	Restarts int
	Live     bool
	LiveQ    *CountingQueue
	// CatchUp: when set, the set and claim caches catch up (pending events are delivered)
	// right after a controller call on that resource failed, i.e. while the reconcile is
	// still running - what a live informer does. Pod and revision events are delivered
	// mid-reconcile only after a failed *write* on that kind (the reconcile has listed them by then,
	// so the recorded snapshot stays the one it saw; the conflict-retry loops re-read the listers).
	CatchUp         bool
	CatchUpOneByOne bool
	midCopies       []cacheCopy
	unreadyN        int // kubelet "unready" transitions so far in this scenario
	curRec          int // id of the reconcile in progress (0 outside)
}

func (w *World) afterCall(c *simapi.Call) {
	if !w.CatchUp || w.Live || c.Rec == 0 || c.OK() {
		return
	}
	// a failed pod write comes after the reconcile listed its pods, so the pod cache may catch up too
	// (the status updater / pod control re-read the listers in their conflict-retry loops)
	if c.Res == simapi.Sets || c.Res == simapi.PVCs || ((c.Res == simapi.Pods || c.Res == simapi.Revisions) && c.IsWrite()) {
		// one event per failed call: successive retries of the same write see successive cache states
		// (e.g. a deletion first, the re-creation one attempt later)
		n := -1
		if w.CatchUpOneByOne && c.Res != simapi.PVCs {
			// (claims always catch up completely: the controller walks the claims of a pod in its own map
			// order, and handing out one event per failed claim call would make the outcome depend on it)
			n = 1
		}
		d := w.Deliver(c.Res, n)
		if os.Getenv("C09_DEBUG") == "2" {
			fmt.Fprintf(os.Stderr, "      (mid-reconcile catch-up after failed %s %s %s: %d %s events delivered, %d still pending)\n", c.Verb, c.Res, c.Name, d, c.Res, w.Pending(c.Res))
		}
		if d > 0 {
			// the objects that just entered the cache are watched for in-place modification as well
			idx := w.inf[c.Res].GetIndexer()
			for _, k := range idx.ListKeys() {
				o, _, _ := idx.GetByKey(k)
				ro := o.(runtime.Object)
				w.midCopies = append(w.midCopies, cacheCopy{c.Res, k, ro, ro.DeepCopyObject()})
			}
		}
	}
}

var cachedRes = []simapi.Res{simapi.Sets, simapi.Pods, simapi.PVCs, simapi.Revisions}

// New builds a stepping-mode world (informers are never started; the harness
// feeds their indexers and handlers itself).
func New(srv *simapi.Server) *World {
	w := &World{Srv: srv, pending: map[simapi.Res][]pendingEv{}}
	srv.OnWrite = w.onWrite
	srv.AfterCall = w.afterCall
	w.build()
	return w
}

func (w *World) build() {
	w.Kube = informers.NewSharedInformerFactory(w.Srv.Kube, 0)
	w.PCF = pcinformers.NewSharedInformerFactory(w.Srv.PC, 0)
	w.inf = map[simapi.Res]*capInformer{
		simapi.Pods:      {SharedIndexInformer: w.Kube.Core().V1().Pods().Informer()},
		simapi.PVCs:      {SharedIndexInformer: w.Kube.Core().V1().PersistentVolumeClaims().Informer()},
		simapi.Revisions: {SharedIndexInformer: w.Kube.Apps().V1().ControllerRevisions().Informer()},
		simapi.Sets:      {SharedIndexInformer: w.PCF.Apps().V1().StatefulSets().Informer()},
	}
	w.Ctl = statefulset.NewStatefulSetController(
		podInf{w.inf[simapi.Pods]}, setInf{w.inf[simapi.Sets]}, pvcInf{w.inf[simapi.PVCs]}, revInf{w.inf[simapi.Revisions]},
		w.Srv.Kube, w.Srv.PC)
	if !w.Live {
		w.Q = NewVQueue()
		w.Ctl.VerifSetQueue(w.Q)
	} else {
		// live mode keeps the controller's own queue, wrapped only to know how many items are being processed
		w.LiveQ = &CountingQueue{RateLimitingInterface: w.Ctl.VerifQueue()}
		w.Ctl.VerifSetQueue(w.LiveQ)
	}
}

// CountingQueue delegates everything to the real work queue and counts the items between Get and Done.
type CountingQueue struct {
	workqueue.RateLimitingInterface
	inflight atomic.Int64
}

func (q *CountingQueue) Get() (interface{}, bool) {
	item, shutdown := q.RateLimitingInterface.Get()
	if !shutdown {
		q.inflight.Add(1)
	}
	return item, shutdown
}

func (q *CountingQueue) Done(item interface{}) {
	q.RateLimitingInterface.Done(item)
	q.inflight.Add(-1)
}

// InFlight is the number of keys a worker is processing right now.
func (q *CountingQueue) InFlight() int64 { return q.inflight.Load() }

// ResetLight is Reset without building a new controller object (inner loops that re-run the same
// scenario thousands of times; every controller built leaks its event broadcaster's goroutines).
func (w *World) ResetLight() { w.reset(false) }

// Reset empties API, caches, queue and pending events for the next scenario.
func (w *World) Reset() { w.reset(true) }

func (w *World) reset(rebuild bool) {
	w.Srv.Reset()
	w.Srv.TrimLog()
	w.pmu.Lock()
	w.pending = map[simapi.Res][]pendingEv{}
	w.pmu.Unlock()
	for _, r := range cachedRes {
		idx := w.inf[r].GetIndexer()
		for _, o := range idx.List() {
			idx.Delete(o)
		}
	}
	// a fresh controller object per scenario: anything the controller might remember between
	// reconciles must not leak from one scenario into the next (witnesses stay reproducible)
	if rebuild {
		w.build()
	} else {
		w.Q = NewVQueue()
		w.Ctl.VerifSetQueue(w.Q)
	}
	w.recN = 0
	w.unreadyN = 0
	for _, r := range cachedRes {
		atomic.StoreInt64(&w.inf[r].lists, 0)
	}
	w.CatchUp = false
	w.CatchUpOneByOne = false
}

// Restart emulates a process restart: a new controller object, empty caches
// re-listed from the API, a fresh queue. (The old controller's event
// broadcaster goroutines leak; restarts are budgeted per process.)
func (w *World) Restart() {
	w.Restarts++
	w.build()
	w.pmu.Lock()
	w.pending = map[simapi.Res][]pendingEv{}
	w.pmu.Unlock()
	for _, r := range cachedRes {
		w.Relist(r)
	}
}

func (w *World) onWrite(res simapi.Res, before, after runtime.Object) {
	if w.Live {
		return
	}
	if _, ok := w.inf[res]; !ok {
		return
	}
	w.pmu.Lock()
	defer w.pmu.Unlock()
	ev := pendingEv{before, after, w.curRec}
	l := append(w.pending[res], ev)
	// The controller creates the claims of a pod in its own map iteration order. Creates of different
	// objects commute in a watch stream, so consecutive claim creates of one reconcile are queued in name
	// order: which of them a partial delivery hands out is then the same in every run of the scenario.
	if res == simapi.PVCs && before == nil && w.curRec != 0 {
		i := len(l) - 1
		for i > 0 && l[i-1].before == nil && l[i-1].rec == w.curRec && keyOf(l[i-1].after) > keyOf(after) {
			l[i] = l[i-1]
			i--
		}
		l[i] = ev
	}
	w.pending[res] = l
}

func (w *World) Pending(res simapi.Res) int {
	w.pmu.Lock()
	defer w.pmu.Unlock()
	return len(w.pending[res])
}

func (w *World) PendingTotal() int {
	n := 0
	for _, r := range cachedRes {
		n += w.Pending(r)
	}
	return n
}

func keyOf(o runtime.Object) string {
	m, _ := meta.Accessor(o)
	return m.GetNamespace() + "/" + m.GetName()
}

// Deliver hands the next n watch events of res to the informer cache and to
// the controller's handlers, in order (n < 0: all).
func (w *World) Deliver(res simapi.Res, n int) int {
	w.pmu.Lock()
	evs := w.pending[res]
	if n < 0 || n > len(evs) {
		n = len(evs)
	}
	take := evs[:n]
	w.pending[res] = append([]pendingEv(nil), evs[n:]...)
	w.pmu.Unlock()
	ci := w.inf[res]
	idx := ci.GetIndexer()
	for _, ev := range take {
		switch {
		case ev.after == nil:
			old, ok, _ := idx.GetByKey(keyOf(ev.before))
			if !ok {
				continue
			}
			idx.Delete(old)
			for _, h := range ci.handlers {
				h.OnDelete(old)
			}
		default:
			n := ev.after.DeepCopyObject()
			old, ok, _ := idx.GetByKey(keyOf(n))
			if ok {
				idx.Update(n)
				for _, h := range ci.handlers {
					h.OnUpdate(old, n)
				}
			} else {
				idx.Add(n)
				for _, h := range ci.handlers {
					h.OnAdd(n, false)
				}
			}
		}
	}
	return n
}

func (w *World) DeliverAll() {
	for _, r := range cachedRes {
		w.Deliver(r, -1)
	}
}

// Relist emulates a reflector re-list: pending events are dropped, the cache is
// replaced by the API state; vanished objects are reported through tombstones.
func (w *World) Relist(res simapi.Res) {
	w.pmu.Lock()
	w.pending[res] = nil
	w.pmu.Unlock()
	ci := w.inf[res]
	idx := ci.GetIndexer()
	snap := w.Srv.Snap()
	var keys []string
	for k := range snap[res] {
		keys = append(keys, k)
	}
	sort.Strings(keys)
	for _, k := range keys {
		n := snap[res][k].DeepCopyObject()
		old, ok, _ := idx.GetByKey(k)
		if ok {
			idx.Update(n)
			for _, h := range ci.handlers {
				h.OnUpdate(old, n)
			}
		} else {
			idx.Add(n)
			for _, h := range ci.handlers {
				h.OnAdd(n, true)
			}
		}
	}
	var gone []string
	for _, k := range idx.ListKeys() {
		if _, ok := snap[res][k]; !ok {
			gone = append(gone, k)
		}
	}
	sort.Strings(gone)
	for _, k := range gone {
		old, _, _ := idx.GetByKey(k)
		idx.Delete(old)
		for _, h := range ci.handlers {
			h.OnDelete(cache.DeletedFinalStateUnknown{Key: k, Obj: old})
		}
	}
}

// Handlers returns the handlers the controller registered for res.
func (w *World) Handlers(res simapi.Res) []cache.ResourceEventHandler { return w.inf[res].handlers }

// Indexer gives direct access to a cache (C16 shape enumeration builds caches by hand).
func (w *World) Indexer(res simapi.Res) cache.Indexer { return w.inf[res].GetIndexer() }

// CachedSet returns the set as the controller's cache holds it (the very object, not a copy).
func (w *World) CachedSet(ns, name string) *asv1.StatefulSet {
	o, ok, _ := w.inf[simapi.Sets].GetIndexer().GetByKey(ns + "/" + name)
	if !ok {
		return nil
	}
	return o.(*asv1.StatefulSet)
}

// CacheEqualsAPI reports whether every cache equals the API state.
func (w *World) CacheEqualsAPI() bool {
	if w.PendingTotal() > 0 {
		return false
	}
	return true
}

// Record is everything observed about one reconcile.
type Record struct {
	ID     int
	Key    string
	NS     string
	Set    *asv1.StatefulSet // cached set the reconcile saw (copy), nil if absent
	Pods   []*corev1.Pod     // cached pods of the namespace (copies)
	PVCs   map[string]bool   // cached claim names
	Before simapi.Snapshot
	After  simapi.Snapshot
	Calls  []*simapi.Call // controller calls, events excluded
	Err    error
	Panic  interface{}
	Stack  string
	Crash  bool // ended by an injected crash
	// CacheMutations lists cached objects that differ from their pre-reconcile copy.
	CacheMutations []string
	ViaWorker      bool
	QOps           []QOp
	// RevCacheFresh: the ControllerRevision cache held exactly the API's revisions (same names and
	// resourceVersions) when the reconcile started.
	RevCacheFresh bool
}

func (r *Record) Writes() []*simapi.Call {
	var out []*simapi.Call
	for _, c := range r.Calls {
		if c.IsWrite() {
			out = append(out, c)
		}
	}
	return out
}

type cacheCopy struct {
	res simapi.Res
	key string
	obj runtime.Object // the cached object itself
	cp  runtime.Object // its copy before the reconcile
}

func (w *World) snapshotCaches() []cacheCopy {
	var out []cacheCopy
	for _, r := range cachedRes {
		idx := w.inf[r].GetIndexer()
		keys := idx.ListKeys()
		sort.Strings(keys)
		for _, k := range keys {
			o, _, _ := idx.GetByKey(k)
			ro := o.(runtime.Object)
			out = append(out, cacheCopy{r, k, ro, ro.DeepCopyObject()})
		}
	}
	return out
}

func splitKey(key string) (string, string) {
	for i := 0; i < len(key); i++ {
		if key[i] == '/' {
			return key[:i], key[i+1:]
		}
	}
	return "", key
}

// Reconcile runs one reconcile of key directly (VerifSync) and records it.
func (w *World) Reconcile(key string) *Record { return w.run(key, false) }

// WorkerStep runs one worker iteration (queue Get, sync, requeue bookkeeping).
// Returns nil when the queue is empty.
func (w *World) WorkerStep() *Record {
	k := w.Q.Peek()
	if k == nil {
		return nil
	}
	return w.run(k.(string), true)
}

func (w *World) run(key string, viaWorker bool) (rec *Record) {
	w.recN++
	ns, name := splitKey(key)
	rec = &Record{ID: w.recN, Key: key, NS: ns, ViaWorker: viaWorker, PVCs: map[string]bool{}}
	copies := w.snapshotCaches()
	for _, c := range copies {
		switch c.res {
		case simapi.Sets:
			if c.key == key {
				rec.Set = c.cp.(*asv1.StatefulSet)
			}
		case simapi.Pods:
			if p := c.cp.(*corev1.Pod); p.Namespace == ns {
				rec.Pods = append(rec.Pods, p)
			}
		case simapi.PVCs:
			if p := c.cp.(*corev1.PersistentVolumeClaim); p.Namespace == ns {
				rec.PVCs[p.Name] = true
			}
		}
	}
	_ = name
	rec.Before = w.Srv.Snap()
	cachedRevs := map[string]string{}
	for _, c := range copies {
		if c.res == simapi.Revisions {
			if m, err := meta.Accessor(c.cp); err == nil {
				cachedRevs[c.key] = m.GetResourceVersion()
			}
		}
	}
	rec.RevCacheFresh = true
	apiRevs := rec.Before.List(simapi.Revisions, "")
	if len(apiRevs) != len(cachedRevs) {
		rec.RevCacheFresh = false
	}
	for _, o := range apiRevs {
		if m, err := meta.Accessor(o); err != nil || cachedRevs[m.GetNamespace()+"/"+m.GetName()] != m.GetResourceVersion() {
			rec.RevCacheFresh = false
		}
	}
	from := w.Srv.LogLen()
	qfrom := 0
	if w.Q != nil {
		qfrom = len(w.Q.Ops)
	}
	w.Srv.BeginReconcile(rec.ID)
	w.curRec = rec.ID
	defer func() { w.curRec = 0 }()
	func() {
		defer func() {
			if p := recover(); p != nil {
				if _, ok := p.(simapi.CrashSentinel); ok {
					rec.Crash = true
				} else {
					rec.Panic = p
					rec.Stack = string(debug.Stack())
				}
				if viaWorker {
					// what a dying worker leaves behind is irrelevant: the process restarts
					w.Q.Done(key)
				}
			}
		}()
		if viaWorker {
			w.Ctl.VerifProcessNextWorkItem()
		} else {
			rec.Err = w.Ctl.VerifSync(key)
		}
	}()
	w.Srv.EndReconcile()
	for _, c := range w.Srv.Log(from) {
		if c.Rec == rec.ID {
			rec.Calls = append(rec.Calls, c)
		}
	}
	if w.Q != nil {
		rec.QOps = append([]QOp(nil), w.Q.Ops[qfrom:]...)
		if viaWorker {
			// the worker swallows the error; recover it from the queue bookkeeping
			for _, op := range rec.QOps {
				if op.Op == "addRateLimited" && op.Item == key {
					rec.Err = fmt.Errorf("worker: reconcile failed and was requeued")
				}
			}
		}
	}
	rec.After = w.Srv.Snap()
	copies = append(copies, w.midCopies...)
	w.midCopies = nil
	seenMut := map[string]bool{}
	for _, c := range copies {
		if seenMut[string(c.res)+c.key] {
			continue
		}
		if !reflect.DeepEqual(c.obj, c.cp) {
			seenMut[string(c.res)+c.key] = true
			rec.CacheMutations = append(rec.CacheMutations, fmt.Sprintf("%s %s", c.res, c.key))
		}
	}
	return rec
}

// ResetQueue installs a fresh virtual-time queue holding keys in the given order.
func (w *World) ResetQueue(keys ...string) {
	w.Q = NewVQueue()
	w.Ctl.VerifSetQueue(w.Q)
	for _, k := range keys {
		w.Q.Add(k)
	}
	w.Q.Ops = nil
}

// ---------------------------------------------------------------------------
// live mode: real informers (list+watch over simapi), real queue, real workers

// NewLive builds a world whose informers and workers really run.
func NewLive(srv *simapi.Server) *World {
	w := &World{Srv: srv, pending: map[simapi.Res][]pendingEv{}, Live: true}
	srv.KeepHistory = true
	w.build()
	return w
}

// Start starts informers and the controller with the given number of workers.
func (w *World) Start(workers int, stop <-chan struct{}) {
	w.Kube.Start(stop)
	w.PCF.Start(stop)
	go w.Ctl.Run(workers, stop)
}

// CachesInSync reports whether every informer cache holds exactly the API's objects at their
// current resourceVersions.
func (w *World) CachesInSync() bool {
	snap := w.Srv.Snap()
	for _, r := range cachedRes {
		idx := w.inf[r].GetIndexer()
		keys := idx.ListKeys()
		if len(keys) != len(snap[r]) {
			return false
		}
		for _, k := range keys {
			o, ok, _ := idx.GetByKey(k)
			so := snap[r][k]
			if !ok || so == nil {
				return false
			}
			a, _ := meta.Accessor(o)
			b, _ := meta.Accessor(so)
			if a.GetResourceVersion() != b.GetResourceVersion() {
				return false
			}
		}
	}
	return true
}
