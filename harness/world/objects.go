package world

import (
	"encoding/json"
	"fmt"
	"sort"
	"time"

	asv1 "github.com/pingcap/advanced-statefulset/client/apis/apps/v1"
	"github.com/pingcap/advanced-statefulset/client/apis/apps/v1/helper"
	appsv1 "k8s.io/api/apps/v1"
	corev1 "k8s.io/api/core/v1"
	"k8s.io/apimachinery/pkg/api/resource"
	metav1 "k8s.io/apimachinery/pkg/apis/meta/v1"
	"k8s.io/apimachinery/pkg/runtime"
	"k8s.io/apimachinery/pkg/types"

	"verif/harness/simapi"
)

const NS = "ns"

var SetKind = asv1.SchemeGroupVersion.WithKind("StatefulSet")

func I32(i int32) *int32 { return &i }

// Template returns pod template version v (versions differ in image and an env var).
func Template(labels map[string]string, v int) corev1.PodTemplateSpec {
	l := map[string]string{}
	for k, val := range labels {
		l[k] = val
	}
	t := corev1.PodTemplateSpec{
		ObjectMeta: metav1.ObjectMeta{Labels: l},
		Spec: corev1.PodSpec{
			Containers: []corev1.Container{{
				Name:  "c",
				Image: fmt.Sprintf("img:v%d", v),
				Env:   []corev1.EnvVar{{Name: "V", Value: fmt.Sprint(v)}},
			}},
			Volumes: []corev1.Volume{{Name: "scratch", VolumeSource: corev1.VolumeSource{EmptyDir: &corev1.EmptyDirVolumeSource{}}}},
		},
	}
	if v%2 == 1 {
		t.Annotations = map[string]string{"tv": fmt.Sprint(v)}
	}
	if v >= 2 {
		// several local volumes, one of them named like the usual claim template
		for _, n := range []string{"cfg", "data"} {
			t.Spec.Volumes = append(t.Spec.Volumes, corev1.Volume{Name: n, VolumeSource: corev1.VolumeSource{EmptyDir: &corev1.EmptyDirVolumeSource{}}})
		}
	}
	return t
}

// TemplateVersion recovers v from a template built by Template (-1 if unknown).
func TemplateVersion(t *corev1.PodTemplateSpec) int {
	if len(t.Spec.Containers) == 0 {
		return -1
	}
	var v int
	if _, err := fmt.Sscanf(t.Spec.Containers[0].Image, "img:v%d", &v); err != nil {
		return -1
	}
	return v
}

type SetOpts struct {
	Name        string
	Replicas    int32
	Slots       []int32
	Policy      asv1.PodManagementPolicyType
	Strategy    asv1.StatefulSetUpdateStrategyType
	Partition   *int32 // nil => rollingUpdate block absent
	Claims      []string
	ClaimLabels bool // the first claim template carries labels of its own
	HistLimit   int32
	TemplateV   int
	Labels      map[string]string
	Finalizers  []string
	Paused      bool
	ServiceName string
}

func NewSet(o SetOpts) *asv1.StatefulSet {
	if o.Labels == nil {
		o.Labels = map[string]string{"app": "web"}
	}
	if o.Policy == "" {
		o.Policy = asv1.OrderedReadyPodManagement
	}
	if o.Strategy == "" {
		o.Strategy = asv1.RollingUpdateStatefulSetStrategyType
	}
	if o.ServiceName == "" {
		o.ServiceName = "svc"
	}
	s := &asv1.StatefulSet{
		TypeMeta:   metav1.TypeMeta{APIVersion: asv1.SchemeGroupVersion.String(), Kind: "StatefulSet"},
		ObjectMeta: metav1.ObjectMeta{Name: o.Name, Namespace: NS, Finalizers: o.Finalizers},
		Spec: asv1.StatefulSetSpec{
			Replicas:             I32(o.Replicas),
			Selector:             &metav1.LabelSelector{MatchLabels: o.Labels},
			Template:             Template(o.Labels, o.TemplateV),
			ServiceName:          o.ServiceName,
			PodManagementPolicy:  o.Policy,
			UpdateStrategy:       asv1.StatefulSetUpdateStrategy{Type: o.Strategy},
			RevisionHistoryLimit: I32(o.HistLimit),
		},
	}
	if o.Strategy == asv1.RollingUpdateStatefulSetStrategyType && o.Partition != nil {
		s.Spec.UpdateStrategy.RollingUpdate = &asv1.RollingUpdateStatefulSetStrategy{Partition: I32(*o.Partition)}
	}
	for i, c := range o.Claims {
		var cl map[string]string
		if o.ClaimLabels && i == 0 {
			cl = map[string]string{"claim-owner": "team"}
		}
		s.Spec.VolumeClaimTemplates = append(s.Spec.VolumeClaimTemplates, corev1.PersistentVolumeClaim{
			ObjectMeta: metav1.ObjectMeta{Name: c, Labels: cl},
			Spec: corev1.PersistentVolumeClaimSpec{
				AccessModes: []corev1.PersistentVolumeAccessMode{corev1.ReadWriteOnce},
				Resources:   corev1.ResourceRequirements{Requests: corev1.ResourceList{corev1.ResourceStorage: resource.MustParse("1Gi")}},
			},
		})
	}
	if len(o.Slots) > 0 {
		b, _ := json.Marshal(o.Slots)
		s.Annotations = map[string]string{helper.DeleteSlotsAnn: string(b)}
	}
	if o.Paused {
		if s.Annotations == nil {
			s.Annotations = map[string]string{}
		}
		s.Annotations[helper.PausedReconcileAnn] = "true"
	}
	return s
}

// PodOpts describes a pod of a hostile initial population.
type PodOpts struct {
	Name        string
	Labels      map[string]string
	Owner       *metav1.OwnerReference
	Phase       corev1.PodPhase
	Scheduled   bool
	Ready       bool
	Terminating bool
	Revision    string // revision label ("" = none)
	PodNameLbl  string // value of the pod-name label ("" = none)
	TemplateV   int
	Claims      []string // claim template names whose volumes are present
	SetName     string
	Ordinal     int
	Finalizers  []string
}

func NewPod(o PodOpts) *corev1.Pod {
	t := Template(o.Labels, o.TemplateV)
	p := &corev1.Pod{
		TypeMeta:   metav1.TypeMeta{APIVersion: "v1", Kind: "Pod"},
		ObjectMeta: metav1.ObjectMeta{Name: o.Name, Namespace: NS, Labels: map[string]string{}, Annotations: t.Annotations, Finalizers: o.Finalizers},
		Spec:       t.Spec,
	}
	for k, v := range o.Labels {
		p.Labels[k] = v
	}
	if o.Revision != "" {
		p.Labels[appsv1.StatefulSetRevisionLabel] = o.Revision
	}
	if o.PodNameLbl != "" {
		p.Labels[asv1.StatefulSetPodNameLabel] = o.PodNameLbl
	}
	if o.Owner != nil {
		p.OwnerReferences = []metav1.OwnerReference{*o.Owner}
	}
	p.Spec.Hostname = o.Name
	p.Spec.Subdomain = "svc"
	var vols []corev1.Volume
	for _, c := range o.Claims {
		vols = append(vols, corev1.Volume{Name: c, VolumeSource: corev1.VolumeSource{
			PersistentVolumeClaim: &corev1.PersistentVolumeClaimVolumeSource{ClaimName: fmt.Sprintf("%s-%s-%d", c, o.SetName, o.Ordinal)}}})
	}
	p.Spec.Volumes = append(vols, p.Spec.Volumes...)
	if o.Scheduled {
		p.Spec.NodeName = "node"
	}
	p.Status.Phase = o.Phase
	if o.Ready {
		p.Status.Conditions = PodConditions(corev1.ConditionTrue)
	} else if o.Phase == corev1.PodRunning {
		// Running but not Ready: no Ready condition, Ready=False or Ready=Unknown, by ordinal
		switch o.Ordinal % 3 {
		case 1:
			p.Status.Conditions = PodConditions(corev1.ConditionFalse)
		case 2:
			p.Status.Conditions = PodConditions(corev1.ConditionUnknown)
		}
	}
	if o.Terminating {
		t := fixedTime
		p.DeletionTimestamp = &t
	}
	return p
}

// DecodeRevisionTemplate decodes the pod template recorded in a revision's
// data (independently of the controller's ApplyRevision). nil if undecodable.
func DecodeRevisionTemplate(rev *appsv1.ControllerRevision) *corev1.PodTemplateSpec {
	var raw struct {
		Spec struct {
			Template map[string]interface{} `json:"template"`
		} `json:"spec"`
	}
	if err := json.Unmarshal(rev.Data.Raw, &raw); err != nil || raw.Spec.Template == nil {
		return nil
	}
	delete(raw.Spec.Template, "$patch")
	b, _ := json.Marshal(raw.Spec.Template)
	t := &corev1.PodTemplateSpec{}
	if err := json.Unmarshal(b, t); err != nil {
		return nil
	}
	return t
}

var fixedTime = metav1.NewTime(time.Date(2020, 1, 2, 0, 0, 0, 0, time.UTC))

func OwnerRef(apiVersion, kind, name string, uid types.UID) *metav1.OwnerReference {
	t := true
	return &metav1.OwnerReference{APIVersion: apiVersion, Kind: kind, Name: name, UID: uid, Controller: &t, BlockOwnerDeletion: &t}
}

func SetOwnerRef(s *asv1.StatefulSet) *metav1.OwnerReference {
	return OwnerRef(SetKind.GroupVersion().String(), SetKind.Kind, s.Name, s.UID)
}

// ---------------------------------------------------------------------------
// read helpers over snapshots

func SetsOf(s simapi.Snapshot) []*asv1.StatefulSet {
	var out []*asv1.StatefulSet
	for _, o := range s.List(simapi.Sets, "") {
		out = append(out, o.(*asv1.StatefulSet))
	}
	return out
}

func PodsOf(s simapi.Snapshot, ns string) []*corev1.Pod {
	var out []*corev1.Pod
	for _, o := range s.List(simapi.Pods, ns) {
		out = append(out, o.(*corev1.Pod))
	}
	return out
}

func RevisionsOf(s simapi.Snapshot, ns string) []*appsv1.ControllerRevision {
	var out []*appsv1.ControllerRevision
	for _, o := range s.List(simapi.Revisions, ns) {
		out = append(out, o.(*appsv1.ControllerRevision))
	}
	return out
}

func ControllerOf(m metav1.Object) *metav1.OwnerReference {
	for i := range m.GetOwnerReferences() {
		r := m.GetOwnerReferences()[i]
		if r.Controller != nil && *r.Controller {
			return &r
		}
	}
	return nil
}

// PodConditions is the condition list of a scheduled, initialised pod whose Ready condition has the given
// status (Ready is not the first entry, as on real pods).
func PodConditions(ready corev1.ConditionStatus) []corev1.PodCondition {
	return []corev1.PodCondition{
		{Type: corev1.PodInitialized, Status: corev1.ConditionTrue},
		{Type: corev1.PodReady, Status: ready},
		{Type: corev1.ContainersReady, Status: ready},
		{Type: corev1.PodScheduled, Status: corev1.ConditionTrue},
	}
}

func IsReady(p *corev1.Pod) bool {
	if p.Status.Phase != corev1.PodRunning {
		return false
	}
	for _, c := range p.Status.Conditions {
		if c.Type == corev1.PodReady {
			return c.Status == corev1.ConditionTrue
		}
	}
	return false
}

func IsHealthy(p *corev1.Pod) bool { return IsReady(p) && p.DeletionTimestamp == nil }

func SlotsOf(s *asv1.StatefulSet) map[int]bool {
	out := map[int]bool{}
	v, ok := s.Annotations[helper.DeleteSlotsAnn]
	if !ok {
		return out
	}
	var l []int32
	if json.Unmarshal([]byte(v), &l) != nil {
		return out
	}
	for _, i := range l {
		out[int(i)] = true
	}
	return out
}

func SortedKeys(m map[string]bool) []string {
	var l []string
	for k := range m {
		l = append(l, k)
	}
	sort.Strings(l)
	return l
}

var _ runtime.Object = &corev1.Pod{}
